"""C05 Garbage collection keeps everything reachable.

Oracles: (b) an independent reachability computation over the INPUT objects (vlib/gcmodel.py: own
symbol resolution, relocation graph, roots = entry, -u, exported symbols, SHF_GNU_RETAIN, notes,
init/fini/preinit arrays, .ctors/.dtors, .init/.fini, linker-script KEEP, __start_/__stop_ references,
LSDA/personality of kept functions): every non-empty section in that closure must have a placement
in wild's `.layout` (closure is a subset of kept; over-retention is legal). Calibration: GNU ld
--gc-sections --print-gc-sections must not remove any closure member either. (a) behaviour: the
program linked by wild with --gc-sections must run exactly like wild's --no-gc-sections link and
like GNU ld's links. Workloads: "graph" = freestanding asm node graphs walked by a small C `_start`
(random edges incl. cycles, section-symbol references, __start_/__stop_ sets, init_array, code nodes,
archives, COMDAT/weak duplicates, dead subgraphs, static roots: retain/note/ctors/dtors/fini/preinit/
KEEP/-u/exports; exe, -pie -E, -shared, linker script); "prog" = proggen glibc programs compiled
with -ffunction-sections -fdata-sections. Threads {1,16}, WILD_FILES_PER_GROUP and WILD_VERIF_SCHED.
"""
import os

from vlib import tools, gcmodel
from vlib import elf as E
from vlib import proggen as pg
from vlib import progcheck as pc
from vlib.common import pmap, rng, run, write, HarnessError
from vlib.xlink import SigLimiter

LEVEL = "exploration"

WALKER = r'''
struct edge { long kind; void *a; void *b; };
struct node { long tag; long id; long nedges; struct edge e[]; };
extern struct node root_node;
static long sum, cnt;
static char seen[512];
static void visit(struct node *n) {
  if (seen[n->id]) return;
  seen[n->id] = 1; sum += n->tag; cnt++;
  for (long i = 0; i < n->nedges; i++) {
    struct edge *e = &n->e[i];
    switch (e->kind) {
      case 0: visit(e->a); break;
      case 1: for (void **p = e->a; p < (void **)e->b; p++) if (*p) visit(*p); break;
      case 2: visit(((struct node *(*)(void))e->a)()); break;
    }
  }
}
static void put(const char *s, long v) {
  char b[64]; int n = 0; while (*s) b[n++] = *s++;
  char d[24]; int k = 0; if (v == 0) d[k++] = '0'; while (v) { d[k++] = '0' + v % 10; v /= 10; }
  while (k) b[n++] = d[--k];
  b[n++] = '\n';
  long r; asm volatile("syscall" : "=a"(r) : "a"(1), "D"(1), "S"(b), "d"(n) : "rcx", "r11", "memory");
}
void c_main(void) {
  visit(&root_node); put("sum=", sum); put("cnt=", cnt);
  asm volatile("syscall" :: "a"(60), "D"(0));
  for (;;);
}
__attribute__((naked)) void _start(void) { asm("and $-16,%rsp\n call c_main\n ud2"); }
'''

SCRIPT = '''ENTRY(_start)
SECTIONS {
  . = 0x600000;
  .text : { *(.text .text.*) }
  .rodata : { *(.rodata .rodata.*) }
  .kept : { KEEP(*(.keepme.*)) }
%s  .data : { *(.data .data.*) }
  .bss : { *(.bss .bss.*) }
}
'''
# (bracketing the array with `__init_array_start = .;` assignments makes wild emit a second, empty
# .init_array at the script position - a linker-script defect outside this property - so the walker
# only follows init_array entries under the built-in script)
SCRIPT_INIT = "  .init_array : { KEEP(*(.init_array .init_array.*)) }\n"


# ---- graph generator --------------------------------------------------------------------------------

class Node:
    def __init__(self, k):
        self.k = k
        self.file = 0
        self.tag = 0
        self.bind = "global"       # global | local | hidden | weak | protected
        self.sec = ""              # section name
        self.flags = "aw"
        self.pad = 0               # bytes before the node inside its section
        self.edges = []            # list of (how, target index / set index)
        self.comdat = False
        self.static_root = None    # how a static-only root holder points at it

    @property
    def sym(self):
        return f"n{self.k}" if self.k else "root_node"


def setname(j):
    """Section name of __start_/__stop_ set j: every shape of C identifier (leading underscore(s),
    capitals, digits inside), since the linker decides start/stop eligibility from the name."""
    return ("gset%d", "_gset%d", "__gset_%d", "G9set%d_")[j % 4] % j


def gen_graph(r, quick):
    """Returns dict(sources={name: text}, plan=..., mode, ...). Pure function of r."""
    mode = r.choice(["exe", "exe", "exe", "exe-script", "pie-E", "pie", "shared"])
    nfiles = r.randint(2, 5)
    n = r.randint(8, 22 if quick else 40)
    exportish = mode in ("pie-E", "shared")
    nodes = [Node(k) for k in range(n)]
    nsets = r.randint(0, 3)
    for nd in nodes:
        nd.file = r.randrange(nfiles)
        nd.tag = r.randint(1, 9999)
        if exportish:
            nd.bind = r.choice(["local", "local", "hidden", "hidden", "global", "weak", "protected"])
        else:
            nd.bind = r.choice(["global", "global", "local", "hidden", "weak"])
        st = r.random()
        if st < 0.55:
            nd.sec = f".data.n{nd.k}"
        elif st < 0.7:
            nd.sec = f".data.rel.ro.n{nd.k}" if mode != "exe" else f".rodata.n{nd.k}"
            nd.flags = "aw" if mode != "exe" else "a"
        elif st < 0.8:
            nd.sec = f".mysec.n{nd.k}"
        elif st < 0.9:
            nd.sec = f"csec_n{nd.k}"           # C-identifier name, never referenced through __start_
        else:
            nd.sec = f".data.n{nd.k}"
            nd.pad = r.choice([8, 16, 40])
    nodes[0].file = 0
    nodes[0].bind = "global"
    nodes[0].sec = ".data.root"
    nodes[0].flags = "aw"
    nodes[0].pad = 0
    # set membership: set j holds pointer entries contributed by several files
    sets = [[] for _ in range(nsets)]
    for j in range(nsets):
        for _ in range(r.randint(1, 4)):
            sets[j].append((r.randrange(nfiles), r.randrange(1, n)))
    funcs = []                                    # code nodes: (index, file, how, target)

    def pick_target(src_file):
        for _ in range(20):
            t = r.randrange(1, n)
            if nodes[t].bind == "local" and nodes[t].file != src_file:
                continue
            return t
        return None
    for nd in nodes:
        deg = r.choice([0, 1, 1, 2, 3]) if nd.k else r.randint(2, 4)
        for _ in range(deg):
            c = r.random()
            if c < 0.12 and nsets:
                nd.edges.append(("set", r.randrange(nsets)))
            elif c < 0.3:
                t = pick_target(nd.file)
                if t is None:
                    continue
                fi = len(funcs)
                how = r.choice(["lea", "got", "got", "jmp"] + (["abs64", "abs32"] if mode.startswith("exe") else []))
                ff = nd.file if r.random() < 0.5 else r.randrange(nfiles)
                if nodes[t].bind == "local":
                    ff = nodes[t].file
                fb = "global" if ff != nd.file else r.choice(["global", "local", "hidden"] if not exportish else ["local", "hidden"])
                if exportish and ff != nd.file:
                    fb = "hidden"
                funcs.append(dict(i=fi, file=ff, how=how, target=t, bind=fb))
                nd.edges.append(("func", fi))
            else:
                t = pick_target(nd.file)
                if t is None:
                    continue
                how = "sym"
                if nodes[t].file == nd.file and r.random() < 0.35:
                    how = "secsym"             # explicit section symbol + offset
                nd.edges.append((how, t))
    use_init = mode == "exe" and r.random() < 0.6
    init_entries = []
    if use_init or r.random() < 0.3:
        for _ in range(r.randint(1, 3)):
            init_entries.append((r.randrange(nfiles), r.randrange(1, n), r.choice(["", "", ".00100", ".65000"])))
    # jmp chains between functions
    for f in funcs:
        if f["how"] == "jmp":
            cands = [g for g in funcs if g is not f and g["how"] != "jmp" and (g["bind"] != "local" or g["file"] == f["file"])]
            if cands:
                f["next"] = r.choice(cands)["i"]
            else:
                f["how"] = "lea"
    # static-only roots
    statics = []
    kinds = ["retain", "note", "ctors", "dtors", "fini_array", "preinit_array", "undef"]
    if mode == "exe-script":
        kinds.append("keep")
        kinds.append("keep")
    for kind in r.sample(kinds, r.randint(1, min(4, len(kinds)))):
        if kind == "preinit_array" and mode == "shared":
            continue                         # GNU ld rejects .preinit_array in shared objects
        t = r.randrange(1, n)
        statics.append((kind, r.randrange(nfiles) if nodes[t].bind != "local" else nodes[t].file, t))
    undef = []
    for kind, _f, t in statics:
        if kind == "undef":
            nodes[t].bind = "global" if not exportish else "hidden"
            undef.append(nodes[t].sym)
    # weak shadows: a weak duplicate definition of a strong global node in another non-archive file
    shadows = []
    # COMDAT duplicates
    comdats = []
    archive_files = set()
    if nfiles >= 3 and r.random() < 0.6:
        archive_files = set(r.sample(range(1, nfiles), r.randint(1, nfiles - 2)))
    def copyable(nd):
        for how, t in nd.edges:
            if how == "secsym" or (how == "sym" and nodes[t].bind == "local") or (how == "func" and funcs[t]["bind"] == "local"):
                return False
        return True
    for nd in nodes[1:]:
        if not copyable(nd):
            continue
        if nd.bind == "global" and nd.pad == 0 and r.random() < 0.15 and nfiles > 1 and not exportish:
            of = r.choice([x for x in range(nfiles) if x != nd.file])
            if of not in archive_files and nd.file not in archive_files:
                shadows.append((nd.k, of, r.randint(1, 9999)))
        elif nd.bind in ("global", "weak") and nd.pad == 0 and r.random() < 0.15 and nfiles > 1:
            of = r.choice([x for x in range(nfiles) if x != nd.file])
            nd.comdat = True
            comdats.append((nd.k, of))
    # ---- emit -----------------------------------------------------------------------------------------
    texts = [[] for _ in range(nfiles)]

    def ref(nd_from_file, t, how):
        tn = nodes[t]
        if how == "secsym" and not tn.comdat:
            return f"{tn.sec}+{tn.pad}"
        return tn.sym

    def bind_directives(sym, bind, typ="object"):
        o = []
        if bind in ("global", "hidden", "protected"):
            o.append(f"    .globl {sym}")
        if bind == "hidden":
            o.append(f"    .hidden {sym}")
        if bind == "protected":
            o.append(f"    .protected {sym}")
        if bind == "weak":
            o.append(f"    .weak {sym}")
        o.append(f"    .type {sym},@{typ}")
        return o

    def emit_node(nd, file, tag=None, weak=False, comdat=False):
        A = texts[file].append
        if comdat:
            A(f'    .section {nd.sec},"{nd.flags}G",@progbits,grp_{nd.sym},comdat')
        else:
            A(f'    .section {nd.sec},"{nd.flags}",@progbits')
        A("    .balign 8")
        if nd.pad:
            A(f"    .zero {nd.pad}")
        A("\n".join(bind_directives(nd.sym, "weak" if weak else nd.bind)))
        A(f"{nd.sym}:")
        A(f"    .quad {tag if tag is not None else nd.tag}, {nd.k}, {len(nd.edges)}")
        for how, t in nd.edges:
            if how == "set":
                A(f"    .quad 1, __start_{setname(t)}, __stop_{setname(t)}")
            elif how == "func":
                A(f"    .quad 2, f{t}, 0")
            elif how == "init":
                A("    .quad 1, __init_array_start, __init_array_end")
            else:
                A(f"    .quad 0, {ref(file, t, how)}, 0")
        A(f"    .size {nd.sym}, .-{nd.sym}")
    if use_init:
        nodes[0].edges.append(("init", 0))
    for nd in nodes:
        emit_node(nd, nd.file, comdat=nd.comdat)
    for k, of, tag in shadows:
        emit_node(nodes[k], of, tag=tag, weak=True)
    for k, of in comdats:
        emit_node(nodes[k], of, comdat=True)
    for f in funcs:
        A = texts[f["file"]].append
        name = f"f{f['i']}"
        A(f'    .section .text.{name},"ax",@progbits')
        A("\n".join(bind_directives(name, f["bind"], "function")))
        A(f"{name}:")
        tn = nodes[f["target"]]
        if f["how"] == "lea" and not (mode == "shared" and tn.bind in ("global", "weak", "protected")):
            A(f"    lea {tn.sym}(%rip), %rax\n    ret")
        elif f["how"] == "lea":
            A(f"    mov {tn.sym}@GOTPCREL(%rip), %rax\n    ret")
        elif f["how"] == "got":
            A(f"    mov {tn.sym}@GOTPCREL(%rip), %rax\n    ret")
        elif f["how"] == "abs64":
            A(f"    movabs ${tn.sym}, %rax\n    ret")
        elif f["how"] == "abs32":
            A(f"    mov ${tn.sym}, %eax\n    ret")
        else:
            # keeps its own target alive through a relocation that changes no byte
            A(f"    .reloc ., R_X86_64_NONE, {tn.sym}\n    jmp f{f['next']}")
        A(f"    .size {name}, .-{name}")
    for j, ents in enumerate(sets):
        for file, t in ents:
            if nodes[t].bind == "local" and nodes[t].file != file:
                file = nodes[t].file
            texts[file].append(f'    .section {setname(j)},"aw",@progbits\n    .balign 8\n    .quad {nodes[t].sym}')
    for file, t, suffix in init_entries:
        if nodes[t].bind == "local":
            file = nodes[t].file
        texts[file].append(f'    .section .init_array{suffix},"aw",@init_array\n    .balign 8\n    .quad {nodes[t].sym}')
    for idx, (kind, file, t) in enumerate(statics):
        A = texts[file].append
        s = nodes[t].sym
        if kind == "retain":
            A(f'    .section .data.retained{idx},"awR",@progbits\n    .balign 8\n    .quad {s}')
        elif kind == "note":
            A(f'    .section .note.c05n{idx},"{"a" if mode.startswith("exe") else "aw"}",@note\n    .balign 4\n    .long 4, 8, 0x4305\n    .asciz "C05"\n    .quad {s}')
        elif kind == "ctors":
            A(f'    .section .ctors,"aw",@progbits\n    .balign 8\n    .quad {s}')
        elif kind == "dtors":
            A(f'    .section .dtors.00200,"aw",@progbits\n    .balign 8\n    .quad {s}')
        elif kind == "fini_array":
            A(f'    .section .fini_array,"aw",@fini_array\n    .balign 8\n    .quad {s}')
        elif kind == "preinit_array":
            A(f'    .section .preinit_array,"aw",@preinit_array\n    .balign 8\n    .quad {s}')
        elif kind == "keep":
            A(f'    .section .keepme.k{idx},"aw",@progbits\n    .balign 8\n    .quad {s}')
    sources = {}
    for i, t in enumerate(texts):
        sources[f"g{i}.s"] = "\n".join(t) + '\n    .section .note.GNU-stack,"",@progbits\n'
    opts = []
    for u in undef:
        opts += ["-u", u]
    script = None
    if mode == "exe-script":
        script = SCRIPT % (SCRIPT_INIT if r.random() < 0.5 else "")
    if mode == "pie-E":
        opts += ["-pie", "-E"]
    elif mode == "pie":
        opts += ["-pie"]
    elif mode == "shared":
        opts += ["-shared"]
    return dict(mode=mode, sources=sources, nfiles=nfiles, archive_files=sorted(archive_files), opts=opts, script=script,
                undef=undef, nodes=nodes, thin=r.random() < 0.3,
                features=sorted(set([k for k, _f, _t in statics] + (["set"] if nsets else []) + (["init"] if init_entries else []) +
                                    (["func"] if funcs else []) + (["shadow"] if shadows else []) + (["comdat"] if comdats else []) +
                                    (["archive"] if archive_files else []))))


# ---- judging ------------------------------------------------------------------------------------------

def wild_env(r):
    env = {"WILD_WRITE_LAYOUT": "1"}
    threads = r.choice([1, 16])
    fpg = r.choice([None, None, 1, 2])
    if fpg:
        env["WILD_FILES_PER_GROUP"] = str(fpg)
    if r.random() < 0.6:
        env["WILD_VERIF_SCHED"] = f"{r.randrange(1 << 30)}:{r.choice([10, 30, 60])}"
    return env, threads


def classify_lost(m, reach, placed, node):
    kinds = m.all_in_kinds(reach, placed, node)
    for k in gcmodel.PLAIN:
        if k in kinds:
            return k
    return sorted(kinds)[0] if kinds else reach[node][0]


def check_closure(ctx, lim, m, reach, layout, ldrm, case, files_fn, what, note_prefix):
    """Compares the closure with wild's placements (after calibrating it against GNU ld's removal
    list). Returns (n_lost, stats) or None when the case is inconclusive."""
    placed = gcmodel.placed_fn(layout)
    if ldrm is not None:
        bad = []
        for n in reach:
            f = m.files[n[0]]
            if (f.label, f.elf.sections[n[1]].name) in ldrm and m.must_place(n):
                bad.append(n)
        if bad:
            ctx.note("model-stricter-than-ld:" + reach[bad[0]][0])
            ctx.inconclusive("GNU ld removes a section the model calls reachable (model or generator problem)")
            return None
    lost = m.first_lost(reach, placed)
    for kind in set(k for k, _s in reach.values()):
        ctx.note(note_prefix + "closure-via:" + kind)
    if lost:
        by = {}
        for n, _k, src in lost:
            by.setdefault(classify_lost(m, reach, placed, n), []).append((n, src))
        for via, lst in sorted(by.items()):
            n, src = lst[0]
            sig = f"gc-dropped-reachable:via={via}"
            lim.violation(sig, f"{what}: section {m.name(n)} is reachable from the GC roots (via {via}"
                               f"{' from ' + m.name(src) if src else ''}) but has no placement in wild's --gc-sections output; "
                               f"GNU ld keeps it. {len(lst)} such section(s) in this link.",
                          case=case, files=files_fn(), info={"lost": [m.name(x) for x, _ in lst][:10], "via": via})
    return len(lost)


def graph_case(ctx, lim, i, pinned=None):
    r = rng("C05", ctx.seed, "graph", i)
    g = pinned(r) if pinned else gen_graph(r, ctx.quick)
    case = f"graph.{i}" if not pinned else f"pinned.{i}"
    d = ctx.scratch.dir("g", case)
    mode = g["mode"]
    pic = mode in ("pie", "pie-E", "shared")
    objs = []
    for name, text in sorted(g["sources"].items()):
        o = tools.assemble(ctx, text, name=name[:-2])
        p = os.path.join(d, name[:-2] + ".o")
        if os.path.lexists(p):
            os.unlink(p)
        os.symlink(o, p)
        objs.append(p)
    inputs = []
    if mode != "shared":
        wflags = ["-O1", "-ffreestanding", "-fno-stack-protector", "-ffunction-sections", "-fdata-sections"]
        wflags += ["-fpie"] if pic else ["-fno-pic", "-fno-pie"]
        wo = tools.compile_c(ctx, WALKER, wflags, name="walker")
        wp = os.path.join(d, "walker.o")
        if os.path.lexists(wp):
            os.unlink(wp)
        os.symlink(wo, wp)
        inputs.append(wp)
    plain = [o for k, o in enumerate(objs) if k not in g["archive_files"]]
    arch = [o for k, o in enumerate(objs) if k in g["archive_files"]]
    inputs += plain
    steps = []
    if arch:
        a = os.path.join(d, "libg.a")
        tools.make_archive(a, arch, thin=g["thin"])
        steps.append(f"ar {'rcsT' if g['thin'] else 'rcs'} libg.a " + " ".join(os.path.basename(x) for x in arch))
        inputs.append(a)
    opts = list(g["opts"])
    if g["script"]:
        sp = write(os.path.join(d, "k.lds"), g["script"])
        opts += ["-T", sp]
    env, threads = wild_env(r)
    cmds = []

    def link(kind, gc, tag, extra=()):
        out = tools.fresh(os.path.join(d, f"{tag}.out"))
        args = [("--gc-sections" if gc else "--no-gc-sections"), *opts, *extra, *inputs, "-o", out]
        if kind == "wild":
            args = [f"--threads={threads}"] + args
        res = tools.link(kind, args, extra_env=env if kind == "wild" else None, timeout=240, cwd=d)
        e = " ".join(f"{k}={v}" for k, v in env.items()) + " " if kind == "wild" else ""
        cmds.append(e + ("wild " if kind == "wild" else "ld.bfd ") + " ".join(os.path.basename(a) if a.startswith(d) else a for a in args)
                    + ("" if res.ok else f"   # rc={res.rc}"))
        return res, out

    def files():
        f = {n: t for n, t in g["sources"].items()}
        f["walker.c"] = WALKER
        if g["script"]:
            f["k.lds"] = g["script"]
        f["repro.sh"] = ("# gcc -c g*.s; gcc -c -O1 -ffreestanding -fno-stack-protector -ffunction-sections -fdata-sections "
                         + ("-fpie" if pic else "-fno-pic -fno-pie") + " walker.c\n" + "\n".join(steps + cmds) + "\n")
        for o in objs + ([inputs[0]] if mode != "shared" else []):
            f["obj/" + os.path.basename(o)] = o
        return f
    # reference
    ld_gc, ld_gc_out = link("ld", True, "ld-gc", ["--print-gc-sections"])
    if ld_gc.timed_out:
        return ctx.inconclusive("watchdog fired")
    if not ld_gc.ok:
        ctx.note("ld-rejected:" + mode + ":" + pc.norm_err("\n".join(ln for ln in ld_gc.errtext().splitlines() if "removing unused" not in ln)))
        return ctx.inconclusive("reference linker rejected the case")
    ldrm = gcmodel.ld_removed(ld_gc.errtext())
    runnable = mode in ("exe", "exe-script")
    ref_out = None
    if runnable:
        ld_ng, ld_ng_out = link("ld", False, "ld-nogc")
        if not ld_ng.ok:
            return ctx.inconclusive("reference linker rejected the case")
        ra, rb = run([ld_gc_out], timeout=60), run([ld_ng_out], timeout=60)
        if ra.timed_out or rb.timed_out:
            return ctx.inconclusive("watchdog fired")
        if not ra.ok or not rb.ok or ra.out != rb.out or b"cnt=" not in ra.out:
            ctx.note("ld-run-unusable:" + mode)
            return ctx.inconclusive("reference links do not run alike (generator problem)")
        ref_out = ra.out
    # wild
    w_gc, w_gc_out = link("wild", True, "wild-gc")
    if w_gc.timed_out:
        return ctx.inconclusive("watchdog fired")
    if not w_gc.ok:
        err = pc.norm_err(w_gc.errtext())
        w2, _o = link("wild", False, "wild-nogc")
        if not w2.ok:
            ctx.note("wild-rejects-regardless-of-gc:" + err)
            return ctx.inconclusive("wild rejects this input with and without --gc-sections (not a GC question)")
        lim.violation(f"gc-link-failed:{err}", f"graph program ({mode}): wild fails to link with --gc-sections but links with "
                      f"--no-gc-sections; GNU ld links both: {w_gc.errtext().strip()[:300]}", case=case, files=files())
        return
    layout = tools.read_layout(w_gc_out + ".layout")
    fl = gcmodel.load_files(layout, cwd=d)
    keep_pats = [".keepme.*"] + ([".init_array", ".init_array.*"] if g["script"] and "init_array" in g["script"] else [])
    roots = gcmodel.Roots(entry=None if mode == "shared" else "_start", undefined=g["undef"],
                          export_all=mode in ("shared", "pie-E"), keep_patterns=keep_pats if g["script"] else [],
                          default_script=not g["script"])
    m = gcmodel.Model(fl, roots)
    reach = m.closure()
    nlost = check_closure(ctx, lim, m, reach, layout, ldrm, case, files, f"graph program ({mode})", "graph:")
    if nlost is None:
        return
    placed = gcmodel.placed_fn(layout)
    # non-triviality: something was discarded, something is kept only through an indirect root/edge
    all_nodes = [(f.index, s.index) for f in fl if f for s in f.elf.sections if m.is_node(f, s.index) and m.must_place((f.index, s.index))]
    discarded = [n for n in all_nodes if not placed(n)]
    indirect = [n for n, (k, _s) in reach.items() if k not in gcmodel.PLAIN and k != "entry" and m.must_place(n)]
    behaviour_ok = True
    if runnable:
        w_ng, w_ng_out = link("wild", False, "wild-nogc")
        if w_ng.timed_out:
            return ctx.inconclusive("watchdog fired")
        for tag, res, out in (("--no-gc-sections", w_ng, w_ng_out), ("--gc-sections", w_gc, w_gc_out)):
            if behaviour_ok is None:
                break
            if not res.ok:
                ctx.note("wild-nogc-link-failed:" + pc.norm_err(res.errtext()))
                ctx.inconclusive("wild --no-gc-sections link failed (not a GC question)")
                behaviour_ok = None
                continue
            rr = run([out], timeout=60)
            if rr.timed_out:
                ctx.inconclusive("watchdog fired")
                behaviour_ok = None
                continue
            if rr.out != ref_out or rr.rc != 0:
                if tag == "--no-gc-sections":
                    ctx.note("wild-nogc-behaves-differently")
                    ctx.inconclusive("wild's --no-gc-sections link already behaves differently from GNU ld's (not a GC question)")
                    behaviour_ok = None
                    continue
                behaviour_ok = False
                how = "crash" if rr.rc != 0 else "different-output"
                lim.violation(f"gc-changes-behaviour:graph:{how}", f"graph program ({mode}) linked by wild with --gc-sections "
                              f"prints {rr.out[:60]!r} rc={rr.rc}; GNU ld's links (with and without GC) print {ref_out[:60]!r}",
                              case=case, files=files())
    for ft in g["features"]:
        ctx.note("graph-feature:" + ft)
    ctx.note("graph-mode:" + mode)
    ctx.note(f"threads:{threads}")
    if "WILD_VERIF_SCHED" in env:
        ctx.note("perturbed-links")
    ctx.note_max("max-discarded-sections", len(discarded))
    if nlost == 0 and behaviour_ok:
        ctx.held(fingerprint=f"{case}|{mode}|{len(all_nodes)}|{len(discarded)}|{len(indirect)}",
                 nontrivial=len(discarded) >= 1 and len(indirect) >= 1,
                 sample={"mode": mode, "features": g["features"], "sections": len(all_nodes), "closure": len(reach),
                         "discarded": len(discarded), "kept-only-indirectly": len(indirect)} if isinstance(i, int) and i < 3 else None)


# ---- proggen programs ---------------------------------------------------------------------------------

def so_paths(e, workdir):
    out = []
    for n in e.needed():
        for d in (workdir, "/lib/x86_64-linux-gnu", "/usr/lib/x86_64-linux-gnu", "/lib64"):
            p = os.path.join(d, n)
            if os.path.exists(p):
                out.append(p)
                break
    return out


def prog_case(ctx, lim, i):
    r = rng("C05", ctx.seed, "prog", i)
    forbid = ("tlsdesc",)            # known C28 defects would only add noise here
    prog = pg.gen_program(r, features=pg.random_features(r, force=("custom_sec", "ctors"), forbid=forbid))
    for u in prog.units:
        if u.lang != "s" and "-ffunction-sections" not in u.cflags:
            u.cflags += ["-ffunction-sections", "-fdata-sections"]
    cm = r.choice(pg.CODE_MODELS)
    kind = r.choice(prog.kinds(cm))
    case = f"prog.{i}"
    try:
        built = prog.build(ctx, cm, shared=(kind == "shared"))
    except HarnessError as ex:
        ctx.note("generator-compile-failure")
        return ctx.inconclusive("generated program does not compile: " + str(ex)[:80])
    env, threads = wild_env(r)
    exe_pie = cm != "nopic"
    kn = kind if kind != "shared" else ("shared-pie" if exe_pie else "shared-nopie")

    def link(linker, gc, tag, extra=()):
        wd = ctx.scratch.dir("p", case, tag)
        x = list(extra)
        if linker == "wild":
            x.append(f"-Wl,--threads={threads}")
        return pg.link_and_run(ctx, linker, prog, built, kind, extra_link_args=x, workdir=wd, gc=gc, exe_pie=exe_pie,
                               extra_env=env if linker == "wild" else None, link_timeout=400)
    ld_ng = link("ld", False, "ld-nogc")
    if not ld_ng.ok or len((ld_ng.transcript or "").splitlines()) < 5:
        ctx.note("ld-unusable:" + kn)
        return ctx.inconclusive("reference linker could not link/run this program")
    ref = ld_ng.transcript
    ld_gc = link("ld", True, "ld-gc", ["-Wl,--print-gc-sections"])
    if not ld_gc.ok or ld_gc.transcript != ref:
        ctx.note("ld-gc-changes-behaviour:" + kn)
        return ctx.inconclusive("GNU ld's --gc-sections link does not print the reference transcript")
    ldrm = gcmodel.ld_removed(ld_gc.link.errtext() + (ld_gc.lib_link.errtext() if ld_gc.lib_link else ""))
    w_ng = link("wild", False, "wild-nogc")
    c_ng = pc.outcome(w_ng, ref, kind)
    if c_ng[0] in ("link-timeout", "run-timeout"):
        return ctx.inconclusive("watchdog fired")
    if c_ng[0] != "same":
        ctx.note("wild-nogc-differs:" + ":".join(c_ng))
        return ctx.inconclusive("wild's --no-gc-sections link already differs from GNU ld's (C28's business): " + c_ng[0])
    w_gc = link("wild", True, "wild-gc")
    c_gc = pc.outcome(w_gc, ref, kind)
    if c_gc[0] in ("link-timeout", "run-timeout"):
        return ctx.inconclusive("watchdog fired")

    def files():
        f = {"ld.transcript": ref, "wild-gc.transcript": w_gc.transcript or "",
             "commands.txt": pg.command_text(ctx, "wild", prog, w_gc) + f"# code model {cm}; env {env}; --threads={threads}\n"
                             "# reference: the same command with --no-gc-sections, and with ld.bfd\n",
             "wild.stderr": (w_gc.link.errtext() if w_gc.link else "") + (w_gc.lib_link.errtext() if w_gc.lib_link else "")}
        for name, text in prog.sources(cm, kind == "shared").items():
            f["src/" + name] = text
        for b in built:
            f["obj/" + os.path.basename(b.obj)] = b.obj
        return f
    ok = True
    if c_gc[0] != "same" and c_gc[1].startswith("cause="):
        # a structural defect of the output that progcheck diagnoses on its own (e.g. PT_TLS placement): it
        # only happens to show under the GC layout; reachability is not involved
        ctx.note("gc-link-differs-for-known-structural-cause:" + c_gc[1])
        return ctx.inconclusive("wild's --gc-sections link fails for a structural cause unrelated to reachability (C28's business)")
    if c_gc[0] != "same":
        ok = False
        d = pg.diff_transcripts(ref, w_gc.transcript or "")[:6] if w_gc.run is not None else []
        lim.violation(f"gc-changes-behaviour:{c_gc[0]}:{c_gc[1]}:kind={kn}",
                      f"proggen program ({cm}, {kn}) behaves differently when wild links it with --gc-sections ({c_gc[0]} {c_gc[1]}); "
                      f"wild --no-gc-sections and GNU ld with/without GC all print the reference transcript. First differences: {d}",
                      case=case, files=files(), info={"program": prog.desc})
    # static closure check on every wild link output of the gc link (exe and, for shared, the library)
    stats = []
    if w_gc.link is not None and w_gc.link.ok:
        targets = [(w_gc.out, False)]
        if kind == "shared" and w_gc.lib:
            targets.append((w_gc.lib, True))
        for out, is_lib in targets:
            lp = out + ".layout"
            if not os.path.exists(lp):
                ctx.note("no-layout-file")
                continue
            layout = tools.read_layout(lp)
            fl = gcmodel.load_files(layout, cwd=os.path.dirname(out))
            e = E.Elf(out)
            dynamic = bool(e.segs(E.PT_DYNAMIC))
            sh_undefs = gcmodel.shared_object_undefs(so_paths(e, os.path.dirname(out))) if dynamic else ()
            roots = gcmodel.Roots(entry=None if is_lib else "_start", export_all=is_lib, shared_undefs=sh_undefs)
            m = gcmodel.Model(fl, roots)
            reach = m.closure()
            nl = check_closure(ctx, lim, m, reach, layout, ldrm, case, files, f"proggen program ({cm}, {kn}{', libpg.so' if is_lib else ''})",
                               "prog:")
            if nl is None:
                return
            if nl:
                ok = False
            placed = gcmodel.placed_fn(layout)
            alln = [(f.index, s.index) for f in fl if f for s in f.elf.sections
                    if m.is_node(f, s.index) and m.must_place((f.index, s.index))]
            disc = sum(1 for n in alln if not placed(n))
            ind = sum(1 for n, (k, _s) in reach.items() if k not in gcmodel.PLAIN and k != "entry" and m.must_place(n))
            stats.append((len(alln), len(reach), disc, ind))
    for f in sorted(prog.features):
        ctx.note("prog-feature:" + f)
    ctx.note("prog-kind:" + kn)
    ctx.note(f"threads:{threads}")
    if ok and stats:
        ctx.note_max("max-input-sections", max(s[0] for s in stats))
        ctx.held(fingerprint=f"{case}|{cm}|{kn}|{stats}", nontrivial=all(s[2] >= 1 and s[3] >= 1 for s in stats),
                 sample={"program": prog.desc, "code_model": cm, "kind": kn, "transcript_lines": len(ref.splitlines()),
                         "per-output (sections, closure, discarded, kept-only-indirectly)": stats} if i < 2 else None)
    elif ok:
        ctx.inconclusive("no layout to judge")


# ---- pinned reproducers of defects found on the unchanged tree -------------------------------------

def pinned_undef(r):
    src0 = ('    .section .data.root,"aw",@progbits\n    .globl root_node\nroot_node:\n    .quad 5, 0, 1\n    .quad 0, n1, 0\n'
            '    .section .data.n1,"aw",@progbits\n    .globl n1\nn1:\n    .quad 7, 1, 0\n'
            '    .section .data.n2,"aw",@progbits\n    .globl n2\nn2:\n    .quad 9, 2, 1\n    .quad 0, n3, 0\n'
            '    .section .data.n3,"aw",@progbits\n    .globl n3\nn3:\n    .quad 11, 3, 0\n'
            '    .section .data.dead,"aw",@progbits\n    .globl dead\ndead:\n    .quad 13, 4, 0\n'
            '    .section .note.GNU-stack,"",@progbits\n')
    return dict(mode="exe", sources={"g0.s": src0}, nfiles=1, archive_files=[], opts=["-u", "n2"], script=None, undef=["n2"],
                nodes=[], thin=False, features=["undef"])


PINNED = {"undefined-option-root": pinned_undef}


def main(ctx):
    ctx.rule = ("graph: random freestanding asm node graphs (2-5 objects, optional archive, 8-40 nodes, cycles, section-symbol / "
                "__start_/__stop_ / init_array / code-node / R_X86_64_NONE edges, static roots) in exe / linker-script / -pie [-E] / "
                "-shared mode; prog: proggen glibc programs with -ffunction-sections -fdata-sections. A case counts when GNU ld "
                "accepts it, the model closure is a subset of what GNU ld keeps, wild discarded >= 1 section and >= 1 section is "
                "in the closure only through an indirect root or edge (not entry + plain relocations); distinct = distinct "
                "(case, mode, section/discard/indirect counts)")
    ctx.assumptions = ["which files took part in the link is taken from wild's .layout (archive extraction is C03's subject)",
                       "GNU ld 2.40 --print-gc-sections calibrates the reachability model; its links define expected behaviour",
                       "placement in .layout == kept (wild reports loaded, allocated, non-empty, non-merged input sections)"]
    tools.wild()
    lim = SigLimiter(ctx, 2)
    ng = ctx.pick(40, 700)
    npg = ctx.pick(8, 120)
    jobs = [("pin", k) for k in PINNED] + [("prog", i) for i in range(npg)] + [("graph", i) for i in range(ng)]
    if ctx.replay is not None:
        c = str(ctx.replay.get("case"))
        kind, _, idx = c.partition(".")
        jobs = [("pin", idx)] if kind == "pinned" else [(kind, int(idx))]

    def go(j):
        if j[0] == "graph":
            graph_case(ctx, lim, j[1])
        elif j[0] == "pin":
            graph_case(ctx, lim, j[1], pinned=PINNED[j[1]])
        else:
            prog_case(ctx, lim, j[1])
    pmap(go, jobs)
