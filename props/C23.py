"""C23 Size accounting never fails on valid input.

Oracle: wild's stderr carries one of its own size-accounting messages (`Insufficient ... allocation`,
`Allocated too much space in ...`, `Inconsistent allocation detected`, ...) on inputs that GNU ld
links with the same (ld-compatible) options. Workload A: proggen programs x output kinds x random
subsets of the options that change generated-section sizes (link only). Workload B: freestanding
asm programs with exact control over section alignment, odd addresses, relocation mixes (relative
relocs at every address parity, ifunc by call and by address, TLS models, weak undefined, GOT+PLT to
a shared library, copy relocations, COMDAT, absolute symbols, merge strings, export counts), linked
directly. A failing option set is reduced to the single option that makes the difference.
"""
import itertools
import os
import threading

from vlib import tools
from vlib import proggen as pg
from vlib import progcheck as pc
from vlib.common import pmap, rng, write

LEVEL = "exploration"
_once = pc.Once()

# (label, wild args, ld args or None when GNU ld has no such option)
OPTS = [
    ("-z pack-relative-relocs", ["-z", "pack-relative-relocs"], ["-z", "pack-relative-relocs"]),
    ("--hash-style=sysv", ["--hash-style=sysv"], ["--hash-style=sysv"]),
    ("--hash-style=both", ["--hash-style=both"], ["--hash-style=both"]),
    ("--hash-style=gnu", ["--hash-style=gnu"], ["--hash-style=gnu"]),
    ("--build-id=none", ["--build-id=none"], ["--build-id=none"]),
    ("--build-id=sha1", ["--build-id=sha1"], ["--build-id=sha1"]),
    ("--build-id=uuid", ["--build-id=uuid"], ["--build-id=uuid"]),
    ("--build-id=0x", ["--build-id=0x0123456789abcdef01"], ["--build-id=0x0123456789abcdef01"]),
    ("--no-eh-frame-hdr", ["--no-eh-frame-hdr"], ["--no-eh-frame-hdr"]),
    ("--eh-frame-hdr", ["--eh-frame-hdr"], ["--eh-frame-hdr"]),
    ("-s", ["-s"], ["-s"]),
    ("-S", ["-S"], ["-S"]),
    ("--no-relax", ["--no-relax"], ["--no-relax"]),
    ("--relax", ["--relax"], ["--relax"]),
    ("-E", ["-E"], ["-E"]),
    ("--got-plt-syms", ["--got-plt-syms"], None),
    ("--version-script", None, None),      # filled per case
    ("-z now", ["-z", "now"], ["-z", "now"]),
    ("--no-string-merge", ["--no-string-merge"], None),
    ("--gc-sections", ["--gc-sections"], ["--gc-sections"]),
    ("--discard-all", ["--discard-all"], ["--discard-all"]),
    ("--discard-locals", ["--discard-locals"], ["--discard-locals"]),
    ("-Bsymbolic", ["-Bsymbolic"], ["-Bsymbolic"]),
    ("-Bsymbolic-functions", ["-Bsymbolic-functions"], ["-Bsymbolic-functions"]),
    ("--as-needed", ["--as-needed"], ["--as-needed"]),
    ("-z norelro", ["-z", "norelro"], ["-z", "norelro"]),
    ("-z nodelete", ["-z", "nodelete"], ["-z", "nodelete"]),
]
OPT = {o[0]: o for o in OPTS}
EXCL = [{"--hash-style=sysv", "--hash-style=both", "--hash-style=gnu"},
        {"--build-id=none", "--build-id=sha1", "--build-id=uuid", "--build-id=0x"},
        {"--no-eh-frame-hdr", "--eh-frame-hdr"}, {"-s", "-S"}, {"--no-relax", "--relax"},
        {"-Bsymbolic", "-Bsymbolic-functions"}]


def pick_opts(r, lo=1, hi=5):
    names = [o[0] for o in OPTS]
    r.shuffle(names)
    out = []
    k = r.randint(lo, hi)
    # the option named in the statement's "known today" entry gets extra weight
    if r.random() < 0.45:
        out.append("-z pack-relative-relocs")
    for n in names:
        if len(out) >= k:
            break
        if n in out or any(n in g and any(x in g for x in out) for g in EXCL):
            continue
        out.append(n)
    return sorted(out)


def args_for(which, opts, vs_path, wl):
    """Command-line words for option labels; which = 1 (wild) or 2 (ld). None if not expressible."""
    a = []
    for n in opts:
        if n == "--version-script":
            x = ["--version-script=" + vs_path]
        else:
            x = OPT[n][which]
        if x is None:
            if which == 2:
                continue        # GNU ld lacks it: calibrate without
            return None
        a += x
    if wl:
        out = []
        for w in a:
            out.append("-Wl," + w)
        return out
    return a


def reduce_opts(opts, fails):
    """Attribution: "any" when it fails without options, else the set of options each of which is
    necessary (removing it alone makes the failure disappear), joined with '+'."""
    if fails([]):
        return "any"
    if len(opts) == 1:
        return opts[0]
    needed = [n for n in opts if not fails([x for x in opts if x != n])]
    return "+".join(sorted(needed)) if needed else "combination"


def record(ctx, what, kindname, opts, fails_with, wild_res, ld_ok, case, files, fp, extra_desc=""):
    """Common verdict logic for one wild link result."""
    for n in opts:
        ctx.note("option:" + n)
    ctx.note("kind:" + kindname)
    if wild_res.timed_out:
        ctx.inconclusive("watchdog fired")
        return
    msg = pc.alloc_error(wild_res.errtext()) if not wild_res.ok else None
    if wild_res.ok:
        ctx.held(fingerprint=fp, nontrivial=bool(opts), sample=None)
        return
    if msg is None:
        ctx.note("wild-fails-otherwise:" + pc.norm_err(wild_res.errtext(), 70))
        ctx.inconclusive("wild rejects the link for another reason (not a size-accounting message)")
        return
    if not ld_ok():
        ctx.inconclusive("GNU ld does not link this input with these options")
        return
    option = reduce_opts(opts, fails_with)
    # the output kind and the workload are recorded in the witness, not in the identity: the same
    # accounting defect shows in every kind that has the section
    # The RELR/RELA parity disagreement is one defect whatever other options happen to be needed to
    # put a pointer at an odd address in a given program: its identity is the message plus
    # -z pack-relative-relocs.
    if "pack-relative-relocs" in option and (msg.startswith("Insufficient .rela.dyn (relative)") or msg.startswith("Insufficient .relr.dyn")):
        option = "-z pack-relative-relocs"
    sig = f"{msg}:option={option}"
    ctx.note("violations-by-signature:" + sig)
    if not _once.first(sig):
        return
    files = dict(files())
    files["wild.stderr"] = wild_res.errtext()
    ctx.violation(sig, f"wild fails with its own size-accounting error on an input GNU ld links: `{msg}`; options {opts}; "
                       f"the option that makes the difference: {option}. {extra_desc}", case=case, files=files,
                  info={"options": opts, "kind": kindname})


# ---- workload A: proggen programs --------------------------------------------------------------------

def prog_case(ctx, i):
    r = rng("C23", ctx.seed, "A", i)
    prog = pg.gen_program(r)
    cm = r.choice(pg.CODE_MODELS)
    kinds = prog.kinds(cm)
    built = {}
    cnt = itertools.count(1)
    vs = write(os.path.join(ctx.scratch.dir("A", i), "v.ver"),
               "V1 { global: u0_f*; u1_d*; };\nV2 { global: u1_f*; u2_*; rt_line; } V1;\n")
    for f in sorted(prog.features):
        ctx.note("feature:" + f)

    def objs(kind):
        sh = kind == "shared"
        if sh not in built:
            built[sh] = prog.build(ctx, cm, shared=sh)
        return built[sh]

    def link(linker, kind, opts, env=None):
        which = 1 if linker == "wild" else 2
        a = args_for(which, [o for o in opts if o != "--gc-sections"], vs, wl=True)
        wd = ctx.scratch.dir("A", i, f"{linker}-{next(cnt)}")
        return pg.link_and_run(ctx, linker, prog, objs(kind), kind, extra_link_args=a, workdir=wd, gc="--gc-sections" in opts,
                               run_it=False, exe_pie=(cm != "nopic"), extra_env=env)

    def res_of(lr):
        return lr.lib_link if (lr.lib_link is not None and not lr.lib_link.ok) else lr.link

    ncfg = ctx.pick(7, 25)
    for j in range(ncfg):
        kind = r.choice(kinds)
        opts = pick_opts(r)
        env = {}
        if r.random() < 0.3:
            env["WILD_FILES_PER_GROUP"] = str(r.choice([1, 2, 3]))
        kn = kind if kind != "shared" else ("shared-pie" if cm != "nopic" else "shared-nopie")
        lr = link("wild", kind, opts, env)
        wres = res_of(lr)

        def fails_with(o, kind=kind, env=env):
            x = res_of(link("wild", kind, o, env))
            return (not x.ok) and pc.alloc_error(x.errtext()) is not None

        def ld_ok(kind=kind, opts=opts):
            x = link("ld", kind, opts)
            return res_of(x).ok

        def files(lr=lr, kind=kind):
            f = {"commands.txt": pg.command_text(ctx, "wild", prog, lr) + f"# env {env}\n", "v.ver": vs}
            for name, text in prog.sources(cm, kind == "shared").items():
                f["src/" + name] = text
            for b in objs(kind):
                f["obj/" + os.path.basename(b.obj)] = b.obj
            return f
        record(ctx, "proggen", kn, opts, fails_with, wres, ld_ok, f"A{i}.{j}", files,
               fp=f"A|s{ctx.seed}i{i}|{kn}|{','.join(opts)}|{sorted(env.items())}")


# ---- workload B: freestanding asm ------------------------------------------------------------------------

def gen_asm(r, kind, with_lib):
    """-> (list of asm texts, description set). kind: exe | pie | shared."""
    shared = kind == "shared"
    pic = kind != "exe"
    used = set()
    T, D, X = [], [], []     # text, data, extra sections (strings)
    A = T.append
    A("    .text\n    .globl _start\n    .type _start,@function\n_start:\n    .cfi_startproc")
    A("    mov $60, %eax\n    xor %edi, %edi\n    syscall\n    .cfi_endproc\n    .size _start, .-_start")
    A("    .globl fn0\n    .type fn0,@function\nfn0:\n    .cfi_startproc\n    ret\n    .cfi_endproc\n    .size fn0, .-fn0")
    A("    .type lfn,@function\nlfn:\n    ret\n    .size lfn, .-lfn")
    D.append("    .data\n    .globl gd0\n    .type gd0,@object\n    .balign 8\ngd0:\n    .quad 7\n    .size gd0, 8\nld0:\n    .quad 9")
    # in a shared object a preemptible symbol cannot be the target of a plain pointer computed at
    # link time, but `.quad sym` is fine (dynamic relocation); local targets give RELATIVE relocs
    local_targets = ["ld0", "lfn", "_start" if not shared else "lfn", "ld0+3"]
    global_targets = ["gd0", "fn0", "gd0+5"]
    # 1. pointer soup: sections of every alignment with pointers at every address parity
    if r.random() < 0.9:
        used.add("ptr-soup")
        for k in range(r.randint(1, 6)):
            al = r.choice([1, 1, 2, 4, 8])
            name = f".data.s{k}"
            D.append(f'    .section {name},"aw",@progbits\n    .balign {al}')
            for _ in range(r.randint(1, 4)):
                pad = r.choice([0, 1, 1, 2, 3, 5, 7])
                if pad:
                    D.append("    .byte " + ", ".join("1" for _ in range(pad)))
                t = r.choice(local_targets + local_targets + global_targets)
                D.append(f"    .quad {t}")
                if t.startswith("gd0") or t.startswith("fn0"):
                    used.add("ptr-to-global")
                used.add(f"ptr-align{al}")
    # 2. TLS
    if r.random() < 0.5:
        used.add("tls")
        D.append('    .section .tdata,"awT",@progbits\n    .balign 4\n    .globl tv\n    .type tv,@object\ntv:\n    .long 5\n    .size tv, 4\n'
                 '    .type tl,@object\ntl:\n    .long 6\n    .size tl, 4')
        D.append('    .section .tbss,"awT",@nobits\n    .balign %d\ntz:\n    .zero 16' % r.choice([4, 16, 64]))
        A("    .globl tlsf\n    .type tlsf,@function\ntlsf:\n    .cfi_startproc\n    sub $8, %rsp\n    .cfi_adjust_cfa_offset 8")
        forms = ["gd", "ld", "ie", "desc"] + ([] if shared else ["le"])
        for f in r.sample(forms, r.randint(1, len(forms))):
            used.add("tls-" + f)
            v = r.choice(["tv", "tl"]) if f != "ld" else "tl"
            if f == "gd":
                A(f"    .byte 0x66\n    lea {v}@tlsgd(%rip), %rdi\n    .value 0x6666\n    rex64\n    call __tls_get_addr@PLT")
            elif f == "ld":
                A("    lea tl@tlsld(%rip), %rdi\n    call __tls_get_addr@PLT\n    mov tl@dtpoff(%rax), %ecx\n    mov tz@dtpoff(%rax), %edx")
            elif f == "ie":
                A(f"    mov {v}@gottpoff(%rip), %rax\n    mov %fs:(%rax), %eax")
            elif f == "desc":
                A(f"    lea {v}@tlsdesc(%rip), %rax\n    call *{v}@tlscall(%rax)")
            else:
                A(f"    mov %fs:{v}@tpoff, %eax")
        A("    add $8, %rsp\n    .cfi_adjust_cfa_offset -8\n    ret\n    .cfi_endproc\n    .size tlsf, .-tlsf")
        if "tls-gd" in used or "tls-ld" in used:
            # the symbol must exist for the unrelaxed forms (shared) and for GNU ld's symbol resolution
            A("    .weak __tls_get_addr" if not with_lib else "")
    # 3. ifunc
    if r.random() < 0.5:
        used.add("ifunc")
        glob = r.random() < 0.5
        A(("    .globl ifn\n" if glob else "") + "    .type ifn,@gnu_indirect_function\nifn:\n    lea lfn(%rip), %rax\n    ret\n    .size ifn, .-ifn")
        A("    .type useif,@function\nuseif:")
        for f in r.sample(["call", "got", "lea", "data"], r.randint(1, 4)):
            if f == "call":
                A("    call ifn@PLT")
            elif f == "got":
                A("    mov ifn@GOTPCREL(%rip), %rax")
            elif f == "lea" and not (shared and glob):
                A("    lea ifn(%rip), %rax")
            elif f == "data":
                D.append('    .section .data.ifp,"aw",@progbits\n    .balign %d\n    .byte 1\n    .quad ifn' % r.choice([1, 8]))
            used.add("ifunc-" + f)
        A("    ret\n    .size useif, .-useif")
    # 4. weak undefined
    if r.random() < 0.5:
        used.add("weak-undef")
        A("    .weak wu\n    .type usewu,@function\nusewu:\n    mov wu@GOTPCREL(%rip), %rax")
        if r.random() < 0.5:
            A("    call wu@PLT")
            used.add("weak-undef-plt")
        A("    ret\n    .size usewu, .-usewu")
        if r.random() < 0.5:
            D.append('    .section .data.wu,"aw",@progbits\n    .quad wu')
            used.add("weak-undef-data")
    # 5. references into the shared library: GOT + PLT + data + copy relocation
    if with_lib:
        used.add("lib-refs")
        A("    .type uselib,@function\nuselib:")
        for f in r.sample(["plt", "got", "gotdata", "data", "copy", "fnaddr32"], r.randint(1, 5)):
            if f == "plt":
                A("    call ext_f@PLT")
            elif f == "got":
                A("    mov ext_f@GOTPCREL(%rip), %rax")
            elif f == "gotdata":
                A("    mov ext_d@GOTPCREL(%rip), %rax")
            elif f == "data":
                D.append('    .section .data.ext,"aw",@progbits\n    .balign %d\n    .byte 2\n    .quad ext_f\n    .quad ext_d' % r.choice([1, 2, 8]))
            elif f == "copy" and not pic:
                A("    mov ext_d, %eax")
            elif f == "fnaddr32" and not pic:
                A("    mov $ext_f, %eax")
            else:
                continue
            used.add("lib-" + f)
        A("    ret\n    .size uselib, .-uselib")
    # 6. relaxable GOT references to local and absolute symbols
    if r.random() < 0.6:
        used.add("got-local")
        A("    .type gotl,@function\ngotl:\n    mov ld0@GOTPCREL(%rip), %rax\n    mov gd0@GOTPCREL(%rip), %rcx\n    call *lfn@GOTPCREL(%rip)\n"
          "    cmp fn0@GOTPCREL(%rip), %rax\n    ret\n    .size gotl, .-gotl")
    if r.random() < 0.4:
        used.add("absolute")
        D.append("    .globl abs1\n    abs1 = 0x%x" % r.choice([0x1234, 0x7fffffff, 0xffffffff]))
        D.append('    .section .data.abs,"aw",@progbits\n    .byte 1\n    .quad abs1\n    .quad abs1+2')
        A("    .type useabs,@function\nuseabs:\n    mov abs1@GOTPCREL(%rip), %rax\n    ret\n    .size useabs, .-useabs")
    # 7. init/fini arrays
    if r.random() < 0.4:
        used.add("init-array")
        D.append('    .section .init_array,"aw",@init_array\n    .quad lfn\n    .quad fn0\n    .section .fini_array,"aw",@fini_array\n    .quad lfn')
    # 8. exported symbols (dynsym / hash sizing)
    nexp = r.choice([0, 1, 3, 17, 40])
    if nexp:
        used.add(f"exports-{nexp}")
        A("".join(f"    .globl ex{k}\n    .type ex{k},@function\nex{k}:\n    ret\n    .size ex{k}, .-ex{k}\n" for k in range(nexp)))
    # 9. merge strings
    if r.random() < 0.6:
        used.add("strings")
        X.append('    .section .rodata.str1.1,"aMS",@progbits,1')
        for k in range(r.randint(1, 6)):
            X.append(f'.LS{k}:\n    .string "{r.choice(["alpha", "beta", "a longer string", "", "x", "tail", "the tail"])}"')
        A("    .type usestr,@function\nusestr:\n    lea .LS0(%rip), %rax\n    ret\n    .size usestr, .-usestr")
    main = "\n".join(T + D + X) + '\n    .section .note.GNU-stack,"",@progbits\n'
    srcs = [main]
    # 10. second object: COMDAT group duplicated in both objects, more strings, more pointers
    if r.random() < 0.6:
        used.add("second-object")
        cg = ('    .section .text.cg,"axG",@progbits,cgroup,comdat\n    .weak cg_fn\n    .type cg_fn,@function\ncg_fn:\n    .cfi_startproc\n    ret\n    .cfi_endproc\n'
              '    .section .data.cg,"awG",@progbits,cgroup,comdat\n    .balign 1\n    .byte 3\n    .quad cg_fn\n    .quad ld1\n')
        second = ("    .text\n    .globl fn1\n    .type fn1,@function\nfn1:\n    .cfi_startproc\n    ret\n    .cfi_endproc\n    .size fn1, .-fn1\n"
                  "    .data\nld1:\n    .byte 1\n    .quad fn1\n    .quad ld1\n" + cg +
                  '    .section .rodata.str1.1,"aMS",@progbits,1\n    .string "tail"\n    .string "other"\n'
                  '    .section .note.GNU-stack,"",@progbits\n')
        srcs[0] = srcs[0].replace('    .section .note.GNU-stack', "    .data\nld1:\n    .quad 1\n" + cg + "    .section .note.GNU-stack")
        srcs.append(second)
        used.add("comdat")
    return srcs, used


LIB_SRC = ('    .text\n    .globl ext_f\n    .type ext_f,@function\next_f:\n    ret\n    .size ext_f, .-ext_f\n'
           '    .data\n    .globl ext_d\n    .type ext_d,@object\n    .balign 8\next_d:\n    .quad 11\n    .size ext_d, 8\n'
           '    .section .note.GNU-stack,"",@progbits\n')


def asm_case(ctx, i):
    r = rng("C23", ctx.seed, "B", i)
    kind = r.choice(["exe", "pie", "pie", "shared", "shared"])
    with_lib = r.random() < 0.5
    srcs, used = gen_asm(r, kind, with_lib)
    d = ctx.scratch.dir("B", i)
    objs = [tools.assemble(ctx, s) for s in srcs]
    cnt = itertools.count(1)
    inputs = list(objs)
    if with_lib:
        lib = tools.fresh(os.path.join(d, "libext.so"))
        rl = tools.link("ld", ["-shared", "-o", lib, tools.assemble(ctx, LIB_SRC)])
        if not rl.ok:
            ctx.inconclusive("could not build helper library")
            return
        inputs.append(lib)
    vs = write(os.path.join(d, "v.ver"), "V1 { global: fn0; ex1*; };\nV2 { global: gd0; ex2*; ex3*; } V1;\n")
    kargs = {"exe": [], "pie": ["-pie"], "shared": ["-shared"]}[kind]
    if kind != "shared" and with_lib and r.random() < 0.7:
        kargs = kargs + ["--dynamic-linker=/lib64/ld-linux-x86-64.so.2"]
    kn = kind + ("+lib" if with_lib else "")
    opts = pick_opts(r, 0, 4)
    env = {}
    if r.random() < 0.2:
        env["WILD_FILES_PER_GROUP"] = "1"
    for u in sorted(used):
        ctx.note("asm-feature:" + u)

    def link(linker, o, envx=None):
        a = args_for(1 if linker == "wild" else 2, o, vs, wl=False)
        gc = [] if "--gc-sections" in o else ["--no-gc-sections"]
        out = tools.fresh(os.path.join(d, f"out-{linker}-{next(cnt)}"))
        return tools.link(linker, [*kargs, *gc, *a, *inputs, "-o", out], extra_env=envx), [*kargs, *gc, *a]

    wres, wargs = link("wild", opts, env)

    def fails_with(o):
        x, _ = link("wild", o, env)
        return (not x.ok) and pc.alloc_error(x.errtext()) is not None

    def ld_ok():
        x, _ = link("ld", opts)
        return x.ok

    def files():
        f = {f"in{k}.s": s for k, s in enumerate(srcs)}
        for k, o in enumerate(objs):
            f[f"in{k}.o"] = o
        f["v.ver"] = vs
        if with_lib:
            f["libext.s"] = LIB_SRC
            f["libext.so"] = inputs[-1]
        f["commands.txt"] = ("wild " + " ".join(wargs) + " " + " ".join(f"in{k}.o" for k in range(len(objs))) +
                             (" libext.so" if with_lib else "") + f" -o out\n# env {env}\n")
        return f
    record(ctx, "asm", kn, opts, fails_with, wres, ld_ok, f"B{i}", files,
           fp=f"B|s{ctx.seed}i{i}|{kn}|{','.join(opts)}|{','.join(sorted(used))}", extra_desc=f"asm features: {sorted(used)}")


# ---- pinned: odd-address pointer + -z pack-relative-relocs --------------------------------------------------

PIN_SRC = ('    .text\n    .globl _start\n_start:\n    mov $60, %eax\n    xor %edi, %edi\n    syscall\n'
           '    .section .data.a,"aw",@progbits\n    .byte 1\n    .section .data.b,"aw",@progbits\n    .quad _start\n'
           '    .section .note.GNU-stack,"",@progbits\n')


PIN_IFUNC_SRC = ('    .text\n    .globl _start\n_start:\n    .type ifn,@gnu_indirect_function\nifn:\n    lea ifn(%rip), %rax\n    ret\n'
                 '    .section .note.GNU-stack,"",@progbits\n')
PINS = [
    # align-1 section at an odd address holding `.quad _start`: allocation looks at the offset, the writer at the address
    ("odd-relr", PIN_SRC, ["-pie", "--no-gc-sections"], ["-z pack-relative-relocs"]),
    # a local ifunc: --got-plt-syms allocates .symtab entries that -s (strip-all) then never writes
    ("ifunc-gotpltsyms-strip", PIN_IFUNC_SRC, ["--no-gc-sections"], ["--got-plt-syms", "-s"]),
]


def pinned(ctx, which):
    name, src, base, opts = PINS[which]
    o = tools.assemble(ctx, src)
    d = ctx.scratch.dir("pinned", name)
    cnt = itertools.count(1)

    def link(linker, oo):
        out = tools.fresh(os.path.join(d, f"out-{linker}-{next(cnt)}"))
        return tools.link(linker, [*base, *args_for(1 if linker == "wild" else 2, oo, None, False), o, "-o", out])
    w = link("wild", opts)
    record(ctx, "asm", "pinned", opts, lambda oo: (lambda x: (not x.ok) and pc.alloc_error(x.errtext()) is not None)(link("wild", oo)), w,
           lambda: link("ld", opts).ok, "pinned-" + name,
           lambda: {"in0.s": src, "in0.o": o, "commands.txt": "wild " + " ".join(base + args_for(1, opts, None, False)) + " in0.o -o out\n"},
           fp="pinned:" + name, extra_desc="pinned reproducer " + name)


def main(ctx):
    ctx.rule = ("A: proggen programs x output kind x random subsets (1-5) of 27 size-changing options (+WILD_FILES_PER_GROUP), link only; "
                "B: generated freestanding asm programs (pointer soup over section alignments 1/2/4/8 and paddings, TLS forms, ifunc, weak "
                "undefined, shared-library references, COMDAT, absolute symbols, strings, 0-40 exports) x exe/pie/shared x 0-4 options; a case "
                "counts when wild's link succeeded with a non-empty option set (or failed with an accounting message and GNU ld linked "
                "the same input); distinct = distinct (program, kind, option set)")
    ctx.assumptions = ["GNU ld 2.40 linking the same inputs with the ld-compatible subset of the options decides 'valid input'",
                       "only wild's own accounting messages count; other wild rejections are recorded and inconclusive"]
    tools.wild()
    na, nb = ctx.pick(14, 100), ctx.pick(260, 3500)
    jobs = [("pin", k) for k in range(len(PINS))] + [("A", i) for i in range(na)] + [("B", i) for i in range(nb)]
    if ctx.replay is not None:
        c = str(ctx.replay.get("case"))
        if c.startswith("pinned-"):
            jobs = [("pin", k) for k, pn in enumerate(PINS) if pn[0] == c[len("pinned-"):]]
        else:
            jobs = [(c[0], int(c[1:].split(".")[0]))]

    def go(j):
        if j[0] == "pin":
            pinned(ctx, j[1])
        elif j[0] == "A":
            prog_case(ctx, j[1])
        else:
            asm_case(ctx, j[1])
    pmap(go, jobs)
