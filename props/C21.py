"""C21 Relinking never alters a running program or loaded library.

A victim process executes (or dlopen()s / is DT_NEEDED-linked against) output version A, reports a
checksum of its read-only mapped segments and blocks on a FIFO; the harness relinks the same path
with wild (default options) from different code (version B: other constants, shifted layout); the
victim then re-checksums, calls functions whose pages it had not touched before and reports:
everything must still be version A. Afterwards the path must hold version B under a new inode (a
fresh start behaves as B), or the relink failed and the old inode is untouched.
"""
import os
import subprocess
import threading
import time

from vlib import tools
from vlib.common import pmap, run, write

LEVEL = "exploration"
NF = 48


def lib_src(ver):
    s = ["#include <stddef.h>\n"]
    if ver == 2:
        s.append("__attribute__((aligned(4096),noinline)) int pad_shift(void){ return -1; }\n")
    for i in range(NF):
        s.append(f"__attribute__((aligned(4096),noinline)) int vf{i}(void) {{ return {ver * 100000 + i * 7 + 1}; }}\n")
    s.append("const int vtable_ro[] = {" + ",".join(str(ver * 1000 + i) for i in range(2048)) + "};\n")
    s.append("int vsum_ro(void){ long s=0; for (size_t i=0;i<2048;i++) s+=vtable_ro[i]; return (int)s; }\n")
    s.append("typedef int (*fn)(void);\nfn vfuncs[] = {" + ",".join(f"vf{i}" for i in range(NF)) + "};\n")
    return "".join(s)


MAIN_COMMON = r"""
#define _GNU_SOURCE
#include <stdio.h>
#include <stdlib.h>
#include <string.h>
#include <link.h>
#include <dlfcn.h>
#include <fcntl.h>
#include <unistd.h>
typedef int (*fn)(void);
static const char *want;
static unsigned long acc;
static int cb(struct dl_phdr_info *info, size_t size, void *data) {
  int is_main = (info->dlpi_name == NULL || info->dlpi_name[0] == 0);
  int match = want ? (info->dlpi_name && strstr(info->dlpi_name, want) != NULL) : is_main;
  if (!match) return 0;
  for (int i = 0; i < info->dlpi_phnum; i++) {
    const ElfW(Phdr) *p = &info->dlpi_phdr[i];
    if (p->p_type != PT_LOAD || (p->p_flags & PF_W)) continue;
    const unsigned char *b = (const unsigned char *)(info->dlpi_addr + p->p_vaddr);
    for (size_t k = 0; k < p->p_filesz; k++) acc = acc * 31 + b[k];
  }
  return 1;
}
static unsigned long checksum(const char *lib) { want = lib; acc = 7; dl_iterate_phdr(cb, NULL); return acc; }
static void wait_fifo(const char *path) { int fd = open(path, O_RDONLY); char c; if (fd >= 0) { (void)!read(fd, &c, 1); close(fd);} }
"""

MAIN_EXE = MAIN_COMMON + r"""
extern fn vfuncs[]; extern int vsum_ro(void);
int main(int argc, char **argv) {
  int eager = argc > 2 && argv[2][0] == 'e';
  printf("first %d\n", vfuncs[0]());
  if (eager) printf("sum %lx\n", checksum(NULL));
  fflush(stdout);
  if (argc > 1 && argv[1][0] != '-') wait_fifo(argv[1]);
  long s = 0; for (int i = 0; i < NFUNCS; i++) s += vfuncs[i]();
  printf("calls %ld\n", s);
  printf("ro %d\n", vsum_ro());
  if (eager) printf("sum %lx\n", checksum(NULL));
  return 0;
}
"""

MAIN_DLOPEN = MAIN_COMMON + r"""
int main(int argc, char **argv) {
  int eager = argc > 2 && argv[2][0] == 'e';
  void *h = dlopen(argv[3], RTLD_NOW);
  if (!h) { printf("dlopen failed %s\n", dlerror()); return 3; }
  fn *vfuncs = (fn *)dlsym(h, "vfuncs"); int (*vsum_ro)(void) = (int (*)(void))dlsym(h, "vsum_ro");
  printf("first %d\n", vfuncs[0]());
  if (eager) printf("sum %lx\n", checksum("libvictim"));
  fflush(stdout);
  if (argv[1][0] != '-') wait_fifo(argv[1]);
  long s = 0; for (int i = 0; i < NFUNCS; i++) s += vfuncs[i]();
  printf("calls %ld\n", s);
  printf("ro %d\n", vsum_ro());
  if (eager) printf("sum %lx\n", checksum("libvictim"));
  return 0;
}
"""


def expected(ver):
    calls = sum(ver * 100000 + i * 7 + 1 for i in range(NF))
    ro = sum(ver * 1000 + i for i in range(2048))
    return ver * 100000 + 1, calls, ro


def parse(out):
    d = {"sums": []}
    for ln in out.splitlines():
        k, _, v = ln.partition(" ")
        if k == "sum":
            d["sums"].append(v)
        else:
            d[k] = v
    return d


def scenario(ctx, kind, eager, threads, fork):
    cid = f"{kind}/{'eager' if eager else 'lazy'}/t{threads}/{'fork' if fork else 'nofork'}"
    if ctx.replay is not None and ctx.replay.get("case") != cid:
        return
    wd = ctx.scratch.dir("c", cid.replace("/", "_"))
    wargs = [f"-Wl,--threads={threads}"] + ([] if fork else ["-Wl,--no-fork"])
    pic = ["-fPIC"] if kind.startswith("lib") else (["-fno-pie"] if kind in ("exe-static", "exe-nopie") else ["-fPIE"])
    o1 = tools.compile_c(ctx, lib_src(1), ["-O1", *pic], name="v1" + pic[0])
    o2 = tools.compile_c(ctx, lib_src(2), ["-O1", *pic], name="v2" + pic[0])
    fifo = os.path.join(wd, "go.fifo")
    os.mkfifo(fifo)
    if kind.startswith("exe"):
        m = tools.compile_c(ctx, MAIN_EXE, ["-O1", f"-DNFUNCS={NF}", *pic], name="mainexe" + pic[0])
        largs = {"exe-static": ["-static", "-no-pie"], "exe-nopie": ["-no-pie"], "exe-pie": ["-pie"]}[kind]
        target = os.path.join(wd, "victim")
        link1 = lambda o: tools.gcc_link(ctx, "wild", [m, o, *largs, *wargs, "-ldl"], target)
        cmd = [target, fifo, "e" if eager else "l"]
        fresh_cmd = [target, "-", "l"]
        env = {}
    else:
        target = os.path.join(wd, "libvictim.so")
        link1 = lambda o: tools.gcc_link(ctx, "wild", [o, "-shared", *wargs], target)
        env = {"LD_LIBRARY_PATH": wd}
        if kind == "lib-dlopen":
            m = tools.compile_c(ctx, MAIN_DLOPEN, ["-O1", f"-DNFUNCS={NF}"], name="maindl")
            drv = os.path.join(wd, "driver")
            r = tools.gcc_link(ctx, "ld", [m, "-ldl"], drv)
            cmd = [drv, fifo, "e" if eager else "l", target]
            fresh_cmd = [drv, "-", "l", target]
        else:
            m = tools.compile_c(ctx, MAIN_EXE.replace("checksum(NULL)", 'checksum("libvictim")'), ["-O1", f"-DNFUNCS={NF}"], name="mainneeded")
            drv = os.path.join(wd, "driver")
            cmd = [drv, fifo, "e" if eager else "l"]
            fresh_cmd = [drv, "-", "l"]
    r = link1(o1)
    if not r.ok:
        ctx.inconclusive(f"initial link failed: {r.errtext()[:120]}")
        return
    if kind == "lib-needed":
        r = tools.gcc_link(ctx, "ld", [m, target, "-ldl"], drv)
        if not r.ok:
            ctx.inconclusive(f"driver link failed: {r.errtext()[:120]}")
            return
    ino1 = os.stat(target).st_ino
    e = dict(os.environ)
    e.update(env)
    p = subprocess.Popen(cmd, stdout=subprocess.PIPE, stderr=subprocess.PIPE, env=e, cwd=wd)
    # wait until the victim blocks on the fifo: it opens it for reading
    t0 = time.time()
    fdw = None
    while time.time() - t0 < 30:
        try:
            fdw = os.open(fifo, os.O_WRONLY | os.O_NONBLOCK)
            break
        except OSError:
            if p.poll() is not None:
                break
            time.sleep(0.005)
    if fdw is None:
        p.kill()
        out, err = p.communicate()
        ctx.inconclusive(f"victim did not reach the pause point: {err.decode()[:100]}")
        return
    # relink the same path from version B while the victim holds version A
    r2 = link1(o2)
    ino2 = os.stat(target).st_ino if os.path.exists(target) else None
    os.write(fdw, b"x")
    os.close(fdw)
    try:
        out, err = p.communicate(timeout=60)
    except subprocess.TimeoutExpired:
        p.kill()
        ctx.inconclusive("victim watchdog fired")
        return
    d = parse(out.decode())
    f1, c1, ro1 = expected(1)
    files = {"victim.out": out.decode() + "\n--stderr--\n" + err.decode(), "relink.stderr": r2.errtext(), "cmd.txt": " ".join(cmd)}
    ok_victim = (p.returncode == 0 and d.get("first") == str(f1) and d.get("calls") == str(c1) and d.get("ro") == str(ro1)
                 and (not eager or (len(d["sums"]) == 2 and d["sums"][0] == d["sums"][1])))
    if not ok_victim:
        why = "crashed" if p.returncode != 0 else ("checksum-changed" if eager and len(d["sums"]) == 2 and d["sums"][0] != d["sums"][1] else "observed-new-code-or-data")
        ctx.violation(f"running-victim-altered:{kind}:{why}",
                      f"victim running version A observed a change after the relink (rc={p.returncode}, out={d}, expected first={f1} calls={c1} ro={ro1})",
                      case=cid, files=files)
        return
    if r2.ok:
        if ino2 == ino1:
            ctx.violation(f"relinked-in-place-while-in-use:{kind}", "relink succeeded but the path still has the inode the victim uses",
                          case=cid, files=files)
            return
        rf = run(fresh_cmd, extra_env=env, cwd=wd, timeout=30)
        df = parse(rf.outtext())
        f2, c2, ro2 = expected(2)
        if not (rf.rc == 0 and df.get("first") == str(f2) and df.get("calls") == str(c2) and df.get("ro") == str(ro2)):
            ctx.violation(f"new-output-wrong-after-relink:{kind}", f"fresh start after the relink does not behave as version B: rc={rf.rc} {df}",
                          case=cid, files=files)
            return
        ctx.note("relink_replaced_file")
    else:
        if ino2 != ino1:
            ctx.violation(f"failed-relink-touched-old-file:{kind}", f"relink failed (rc={r2.rc}) and the old file is gone or replaced", case=cid, files=files)
            return
        ctx.note("relink_failed_cleanly")
    ctx.held(fingerprint=cid, nontrivial=True, sample={"case": cid, "victim": d, "relink_rc": r2.rc, "new_inode": ino2 != ino1} if threads == 1 else None)


def main(ctx):
    ctx.rule = ("scenario = output kind x eager/lazy page touching x threads x fork; non-trivial = the victim reached its pause "
                "point holding version A before the relink ran; distinct = the scenario tuple")
    ctx.assumptions = ["default options only (the property's scope)", "output on one filesystem (the scratch directory)"]
    tools.wild()
    kinds = ["exe-static", "exe-pie", "exe-nopie", "lib-dlopen", "lib-needed"]
    jobs = []
    for k in kinds:
        for eager in (True, False):
            for threads, fork in ([(1, True), (16, True)] if ctx.quick else [(1, True), (16, True), (4, False), (16, False)]):
                jobs.append((k, eager, threads, fork))
    reps = 1 if ctx.quick else 5
    pmap(lambda j: scenario(ctx, *j), jobs * 1, workers=6)
    ctx.extra["repetitions"] = reps
