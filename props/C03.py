"""C03 Archive members are loaded exactly when needed.

Oracle: a fixpoint model of the statement (lld semantics) over a generated reference graph predicts
the set of loaded members; it is calibrated on ld.lld for every rotation of the command line and on
GNU ld with everything inside --start-group/--end-group. wild is then linked under several schedules
(threads 1/4/16, WILD_FILES_PER_GROUP=1, seeded perturbation of the request-file window) and three
observations must equal the model: the constructor ids the program prints, the members listed in the
.layout side file, and - from the hook build's event log - one FILE_TAKE per lazily loaded file and
never two for the same file.
"""
import os
import re

from vlib import tools, xlink
from vlib.common import pmap, rng, sha

LEVEL = "exploration"
LIM = None
SELFTEST = os.environ.get("VERIF_SELFTEST", "")


def gen(r, quick):
    narch = r.randint(2, 4) if quick else r.randint(3, 6)
    archives = []
    members = []
    for a in range(narch):
        kind = r.choice(["regular", "regular", "regular", "thin", "thin", "startlib"])
        ar = dict(idx=a, kind=kind, whole=(kind != "startlib" and r.random() < 0.15), members=[])
        for _ in range(r.randint(1, 4 if quick else 6)):
            m = dict(id=len(members), archive=a, defs=[f"f{len(members)}"], refs=[])
            members.append(m)
            ar["members"].append(m["id"])
        archives.append(ar)
    # duplicate-only members: the first in command-line order is the one a reference loads
    dups = []
    if r.random() < 0.3:
        cands = [a for a in archives if not a["whole"]]
        if len(cands) >= 2:
            for a in r.sample(cands, 2):
                m = dict(id=len(members), archive=a["idx"], defs=["g0"], refs=[], dup=True)
                members.append(m)
                a["members"].insert(r.randint(0, len(a["members"])), m["id"])
                dups.append(m["id"])
    names = [f"f{m['id']}" for m in members if not m.get("dup")] + (["g0"] if dups else [])
    for m in members:
        if m.get("dup"):
            continue
        for _ in range(r.choice([0, 0, 1, 1, 2, 3])):
            nm = r.choice(names)
            if nm not in m["defs"] and nm not in [x[0] for x in m["refs"]]:
                m["refs"].append((nm, r.random() < 0.3))
    objects = []
    for o in range(r.randint(1, 3)):
        refs = []
        for _ in range(r.randint(1, 3) if o == 0 else r.randint(0, 2)):
            nm = r.choice(names)
            if nm not in [x[0] for x in refs]:
                refs.append((nm, r.random() < 0.3))
        objects.append(dict(id=o, refs=refs))
    return dict(archives=archives, members=members, objects=objects, kind=r.choice(["pie", "pie", "nopie", "nopie", "static"]),
                gc=r.random() < 0.5)


def member_src(m):
    t = "#include <stdio.h>\n"
    for d in m["defs"]:
        t += f"void {d}(void) {{}}\n"
    for nm, weak in m["refs"]:
        t += f"extern void {nm}(void){' __attribute__((weak))' if weak else ''};\n"
    if m["refs"]:
        t += f"void *refs_m{m['id']}[] = {{ " + ", ".join(f"(void *){nm}" for nm, _ in m["refs"]) + " };\n"
    t += f'__attribute__((constructor)) static void ctor_m{m["id"]}(void) {{ printf("m{m["id"]}\\n"); }}\n'
    return t


def object_src(o):
    t = "#include <stdio.h>\n"
    for nm, weak in o["refs"]:
        t += f"extern void {nm}(void){' __attribute__((weak))' if weak else ''};\n"
    if o["refs"]:
        t += f"void *refs_o{o['id']}[] = {{ " + ", ".join(f"(void *){nm}" for nm, _ in o["refs"]) + " };\n"
    if o["id"] == 0:
        t += 'int main(void) { printf("end\\n"); return 0; }\n'
    return t


def model(case, tokens):
    """tokens: command-line order of ('o', id) / ('a', idx). Returns the set of loaded member ids."""
    members = case["members"]
    pos = {}
    p = 0
    for kind, i in tokens:
        if kind == "a":
            for mid in case["archives"][i]["members"]:
                pos[mid] = p
                p += 1
    loaded = {mid for a in case["archives"] if a["whole"] for mid in a["members"]}
    units = [o["refs"] for o in case["objects"]]
    changed = True
    while changed:
        changed = False
        defined = {d for mid in loaded for d in members[mid]["defs"]}
        reflists = units + [members[mid]["refs"] for mid in sorted(loaded)]
        for refs in reflists:
            for nm, weak in refs:
                if weak or nm in defined:
                    continue
                cands = sorted((m["id"] for m in members if nm in m["defs"]), key=lambda i: pos[i])
                if cands:
                    loaded.add(cands[0])
                    defined |= set(members[cands[0]]["defs"])
                    changed = True
    return loaded


def why(case, mid, loaded):
    """Class of a member for signatures."""
    m = case["members"][mid]
    a = case["archives"][m["archive"]]
    if a["whole"]:
        return "whole-archive"
    strong = weak = False
    for refs in [o["refs"] for o in case["objects"]] + [case["members"][i]["refs"] for i in loaded if i != mid]:
        for nm, w in refs:
            if nm in m["defs"]:
                if w:
                    weak = True
                else:
                    strong = True
    if m.get("dup"):
        return "duplicate-definition:" + ("strongly-referenced" if strong else "not-strongly-referenced")
    if strong:
        return "strongly-referenced"
    return "only-weakly-referenced" if weak else "unreferenced-by-loaded-files"


def build(ctx, case, d, rec):
    flags = ("-O0", "-fPIC") if case["kind"] == "pie" else ("-O0", "-fno-pic")
    mobj = {m["id"]: rec.obj(f"m{m['id']}", member_src(m), flags) for m in case["members"]}
    oobj = {o["id"]: rec.obj(f"o{o['id']}", object_src(o), flags) for o in case["objects"]}
    arch = {}
    for a in case["archives"]:
        objs = [mobj[i] for i in a["members"]]
        if a["kind"] == "startlib":
            arch[a["idx"]] = ["-Wl,--start-lib", *objs, "-Wl,--end-lib"]
        else:
            p = rec.archive(f"lib{a['idx']}.a", objs, thin=a["kind"] == "thin")
            arch[a["idx"]] = ["-Wl,--whole-archive", p, "-Wl,--no-whole-archive"] if a["whole"] else [p]
    return mobj, oobj, arch


def cmd_args(case, tokens, oobj, arch, group=False):
    args = {"pie": ["-pie"], "nopie": ["-no-pie"], "static": ["-static"]}[case["kind"]]
    args.append("-Wl,--gc-sections" if case["gc"] else "-Wl,--no-gc-sections")
    if group:
        args.append("-Wl,--start-group")
    for kind, i in tokens:
        args += [oobj[i]] if kind == "o" else arch[i]
    if group:
        args.append("-Wl,--end-group")
    return args


def run_set(exe):
    rr = xlink.runprog(exe)
    if rr.timed_out or rr.rc != 0 or not rr.outtext().rstrip().endswith("end"):
        return None
    return {int(x) for x in re.findall(r"^m(\d+)$", rr.outtext(), re.M)}


def layout_set(case, out, mobj):
    """Member ids listed in wild's .layout file."""
    lay = tools.read_layout(out + ".layout")
    by_base = {os.path.basename(p): i for i, p in mobj.items()}
    got = set()
    for f in lay["files"]:
        nm = f["member"] if f["member"] is not None else os.path.basename(f["path"])
        if nm in by_base:
            got.add(by_base[nm])
    return got, sum(1 for f in lay["files"] if f["member"] is not None and os.path.basename(f["member"]) not in by_base)


def read_takes(path):
    takes, lost = [], 0
    if not os.path.exists(path):
        return None, 0
    for line in open(path, errors="replace"):
        p = line.split()
        if len(p) >= 5 and p[2] == "FILE_TAKE":
            takes.append((int(p[3]), int(p[4])))
        elif len(p) >= 5 and p[2] == "FILE_TAKE_LOST":
            lost += 1
    return takes, lost


def one_graph(ctx, gi, forced=None):
    r = rng("C03", ctx.seed, gi)
    case = forced or gen(r, ctx.quick)
    d = ctx.scratch.dir("g", gi)
    rec0 = xlink.Recipe(ctx, d)
    mobj, oobj, arch = build(ctx, case, d, rec0)
    base = [("o", o["id"]) for o in case["objects"]] + [("a", a["idx"]) for a in case["archives"]]
    r.shuffle(base)
    rots = list(range(len(base)))
    if ctx.quick and len(rots) > 3:
        rots = sorted(r.sample(rots, 3))
    has_startlib = any(a["kind"] == "startlib" for a in case["archives"])
    lld_sets = {}
    for k in rots:
        tokens = base[k:] + base[:k]
        case_id = f"{gi}.{k}"
        if ctx.replay is not None and str(ctx.replay.get("case")) != case_id:
            continue
        rec = xlink.Recipe(ctx, d)
        rec.names, rec.srcs, rec.steps = dict(rec0.names), dict(rec0.srcs), list(rec0.steps)
        exp = model(case, tokens)
        dd = os.path.join(d, f"rot{k}")
        os.makedirs(dd, exist_ok=True)
        args = cmd_args(case, tokens, oobj, arch)
        # calibration: lld on this rotation, GNU ld with a group
        out = os.path.join(dd, "lld.out")
        res = rec.link("lld", args, out)
        if not xlink.linked_ok(res, out):
            ctx.inconclusive("lld rejects the link line")
            continue
        got = run_set(out)
        lld_sets[k] = got
        if got != exp:
            ctx.inconclusive("model disagrees with lld")
            if os.environ.get("C03_DEBUG"):
                import sys
                print("DBG lld", case_id, sorted(exp), sorted(got or []), tokens, case, file=sys.stderr)
            continue
        if not has_startlib:
            out = os.path.join(dd, "ld.out")
            res = rec.link("ld", cmd_args(case, tokens, oobj, arch, group=True), out)
            if not xlink.linked_ok(res, out):
                ctx.inconclusive("GNU ld rejects the grouped link line")
                continue
            got = run_set(out)
            if got != exp:
                ctx.inconclusive("model disagrees with GNU ld (grouped)")
                if os.environ.get("C03_DEBUG"):
                    import sys
                    print("DBG ld", case_id, sorted(exp), sorted(got or []), tokens, case, file=sys.stderr)
                continue
        for a in case["archives"]:
            ctx.note("archive:" + a["kind"] + (":whole" if a["whole"] else ""))
        # wild under several schedules
        seed = r.randint(1, 10 ** 6)
        scheds = [("t1", ["-Wl,--threads=1"], {}),
                  ("t4-fpg1", ["-Wl,--threads=4"], {"WILD_FILES_PER_GROUP": "1"}),
                  ("t16-sched", ["-Wl,--threads=16"], {"WILD_VERIF_SCHED": f"{seed}:60", "WILD_VERIF_SCHED_SITES": "request file",
                                                       "WILD_FILES_PER_GROUP": "1"})]
        if not ctx.quick:
            scheds += [("t16", ["-Wl,--threads=16"], {}),
                       ("t4-sched", ["-Wl,--threads=4"], {"WILD_VERIF_SCHED": f"{seed + 1}:90", "WILD_VERIF_SCHED_SITES": "request file"}),
                       ("t16-sched-all", ["-Wl,--threads=16"], {"WILD_VERIF_SCHED": f"{seed + 2}", "WILD_FILES_PER_GROUP": "1"})]
        ok_all = True
        take_counts = []
        for tag, extra, env in scheds:
            out = os.path.join(dd, f"wild.{tag}.out")
            evlog = os.path.join(dd, f"ev.{tag}.log")
            if os.path.exists(evlog):
                os.unlink(evlog)
            wargs = list(args)
            if SELFTEST == "whole":
                wargs = [a for a in wargs if a != "-Wl,--no-whole-archive"]
                wargs.insert(2, "-Wl,--whole-archive")
            res = rec.link("wild", wargs + extra, out, extra_env=dict(env, WILD_WRITE_LAYOUT="1", WILD_VERIF_EVLOG=evlog))
            if res.timed_out:
                ctx.inconclusive("link watchdog")
                ok_all = False
                continue
            if not xlink.linked_ok(res, out):
                err = res.errtext().strip()
                cls = "undefined-symbol" if "ndefined" in err else ("duplicate-symbol" if "uplicate" in err or "defined in" in err else "other")
                LIM.violation(f"link:wild-rejects:{cls}", f"wild ({tag}) rejects a link line lld and GNU ld accept: {err[:300]}",
                              case=case_id, files=rec.files())
                ok_all = False
                break
            got = run_set(out)
            rec.step(f"./{rec.names.get(out, 'wild.out')}   # schedule {tag}: expected members {sorted(exp)}")
            lay, sys_members = layout_set(case, out, mobj)
            problems = []
            for src, s in (("run", got), ("layout", lay)):
                if s is None:
                    problems.append(("run:program-failed", src, None))
                    continue
                for mid in sorted(s - exp):
                    m = case["members"][mid]
                    problems.append((f"member-set:loaded-unexpectedly:{why(case, mid, exp)}:{case['archives'][m['archive']]['kind']}", src, mid))
                for mid in sorted(exp - s):
                    m = case["members"][mid]
                    problems.append((f"member-set:not-loaded:{why(case, mid, exp)}:{case['archives'][m['archive']]['kind']}", src, mid))
            takes, lost = read_takes(evlog)
            if takes is None:
                ctx.note("evlog-missing")
            else:
                ctx.note("FILE_TAKE-events", len(takes))
                ctx.note("FILE_TAKE_LOST-events", lost)
                if len(set(takes)) != len(takes):
                    problems.append(("exactly-once:file-taken-twice", "evlog", None))
                # the number of activations is a property of the link line, not of the schedule
                if take_counts and len(takes) != take_counts[0][1]:
                    problems.append(("exactly-once:activation-count-varies-with-schedule", f"evlog ({take_counts[0]} vs {tag}:{len(takes)})", None))
                take_counts.append((tag, len(takes)))
                ctx.note("activation-count-compared")
            if problems:
                ok_all = False
                seen = set()
                for sig, src, mid in problems:
                    if sig in seen:
                        continue
                    seen.add(sig)
                    LIM.violation(sig, f"schedule {tag}, observed via {src}: member m{mid}; model/lld/ld load {sorted(exp)}, wild program shows "
                                  f"{sorted(got) if got is not None else None}, layout lists {sorted(lay)}", case=case_id, files=rec.files(),
                                  info={"tokens": tokens, "archives": case["archives"], "schedule": tag, "env": env})
                break
            ctx.note("schedule:" + tag)
        if ok_all:
            lazy = [a for a in case["archives"] if not a["whole"]]
            nloaded_lazy = len([m for m in exp if not case["archives"][case["members"][m]["archive"]]["whole"]])
            nunloaded = len(case["members"]) - len(exp)
            ctx.held(fingerprint=sha(repr((tokens, case["archives"], [(m["defs"], m["refs"]) for m in case["members"]], case["objects"])))[:16],
                     nontrivial=bool(lazy) and nloaded_lazy >= 1 and nunloaded >= 1,
                     sample={"tokens": [f"{k}{i}" for k, i in tokens], "loaded": sorted(exp), "members": len(case["members"])} if gi < 2 and k == rots[0] else None)
    if len(set(map(lambda s: tuple(sorted(s)) if s is not None else None, lld_sets.values()))) > 1:
        ctx.note("lld-member-set-varies-with-rotation")


def pinned_cases():
    return []


def main(ctx):
    global LIM
    LIM = xlink.SigLimiter(ctx, 2)
    ctx.rule = ("random reference graphs over 2-6 archives x 1-6 members (regular, thin, --start-lib groups, --whole-archive regions, "
                "strong/weak references, cycles, duplicate-only members), every (quick: 3) rotation of the command line, each linked "
                "under 3 (thorough: 6) schedules; a link line counts when model, lld and grouped GNU ld agree and it has at least one "
                "lazily loaded and one unloaded member")
    ctx.assumptions = ["ld.lld 14 (every rotation) and GNU ld 2.40 (--start-group) calibrate the model", "names defined in archive members are never defined in plain objects"]
    tools.wild()
    n = ctx.pick(18, 50)
    jobs = list(range(n))
    if ctx.replay is not None:
        jobs = [int(str(ctx.replay["case"]).split(".")[0])]
    pmap(lambda i: one_graph(ctx, i), jobs, workers=12)
