"""C40 Parallel string merging hands every input to every bucket in order and finishes.

Monitor: the H3 event log of the real merge (slot transitions and bucket takes are emitted under
the slot lock) is replayed against a sequential model of the slot matrix and the reservation pool
(vlib/mon/mergetrace.py): per bucket the groups are taken 0..G-1 each once and in order, every
bucket finishes, every group is processed once, slot transitions legal, reservations conserved.
Output bytes must equal the single-thread result. Hangs are decided logically.
Workload: string-heavy objects x --wild-experiments=P,B (split parallelism, min group bytes) x
threads x H2 perturbation (try_reserve load->CAS window, slot swap vs bucket park windows).
"""
import os

from vlib import tools
from vlib.common import file_sha, pmap, rng
from vlib.mon import hang, mergetrace, slottrace

LEVEL = "exploration"

SITES = ["", "window: try_reserve,window: before strings slot swap,window: bucket before slot lock",
         "Split and hash,Bucket strings,window:"]


def gen_objects(ctx, r, li):
    """Objects with mergeable string sections of several kinds/sizes."""
    nobj = r.choice([4, 10, 25])
    words = [f"w{r.getrandbits(24):x}" for _ in range(400)]
    objs = []
    main = ('.globl _start\n.text\n_start:\n' + "".join(f"    lea s{i}_0(%rip),%rax\n" for i in range(nobj)) +
            "    mov $60,%eax\n    xor %edi,%edi\n    syscall\n")
    objs.append(tools.assemble(ctx, main, name=f"m{li}"))
    for i in range(nobj):
        s = []
        nsec = r.choice([1, 1, 2, 3])
        for k in range(nsec):
            kind = r.choice([".rodata.str1.1", ".rodata.str1.1", ".rodata.str1.8", ".rodata.cst.other"])
            if kind == ".rodata.str1.8":
                s.append('.section .rodata.str1.8,"aMS",@progbits,1\n.p2align 3\n')
            elif kind == ".rodata.cst.other":
                s.append('.section .mystrs,"aMS",@progbits,1\n')
            else:
                s.append('.section .rodata.str1.1,"aMS",@progbits,1\n')
            nstr = r.choice([5, 40, 200] if ctx.quick else [5, 40, 300, 1500])
            for j in range(nstr):
                if j == 0 and k == 0:
                    s.append(f".globl s{i}_0\ns{i}_0:\n")
                c = r.random()
                if c < 0.3:
                    t = " ".join(r.choice(words) for _ in range(r.randint(1, 6)))     # shared across objects
                elif c < 0.4:
                    t = ""
                elif c < 0.5:
                    t = "x" * r.randint(200, 700)                                    # straddles map blocks
                else:
                    t = f"o{i}k{k}j{j}" + r.choice(words)
                s.append(f'.string "{t}"\n')
        s.append(f'.data\n.quad s{i}_0\n')
        objs.append(tools.assemble(ctx, "".join(s), name=f"o{li}-{i}"))
    return objs


def one(ctx, li, objs, canon, cfg, variant="hook"):
    P, B, threads, sseed, pct, sites = cfg
    cid = f"{li}.P{P}.B{B}.t{threads}.s{sseed}.p{pct}.k{SITES.index(sites)}"
    if ctx.replay is not None and ctx.replay.get("case") != cid:
        return
    wd = ctx.scratch.dir("c", cid)
    out = os.path.join(wd, "out")
    evlog = os.path.join(wd, "ev.log")
    env = {"WILD_VERIF_EVLOG": evlog, "WILD_VERIF_SCHED": f"{sseed}:{pct}"}
    if sites:
        env["WILD_VERIF_SCHED_SITES"] = sites
    exp = f"--wild-experiments={P},{B}"
    cmd = [tools.wild(variant), *objs, "--no-fork", f"--threads={threads}", exp, "--no-gc-sections", "-o", out]
    r, hinfo = hang.run_watch(cmd, extra_env=env, timeout=180 if variant == "hook" else 600)
    evs = slottrace.parse(evlog) if os.path.exists(evlog) else []
    files = {"ev.log": evlog, "cmd.txt": " ".join(cmd) + "\n" + str(env)}
    if r.timed_out:
        w = mergetrace.hang_witness(evs)
        if hinfo and hinfo["quiescent"] and w:
            ctx.violation("hang:quiescent-with-unfinished-merge", f"process quiescent past the watchdog; {w}", case=cid, files=files)
        else:
            ctx.inconclusive("watchdog fired (not a provable hang)")
        return
    if variant == "tsan" and r.rc == 66:
        import re
        rep = r.errtext()
        frames = re.findall(r"#\d+ (\S+) .*?(libwild/src/\S+?):\d+", rep)
        if frames:
            ctx.violation("tsan-race:" + frames[0][1] + ":" + frames[0][0], "ThreadSanitizer reported a data race during string merging",
                          case=cid, files={"tsan.txt": rep})
        else:
            ctx.inconclusive("tsan report without an in-repo frame")
        return
    if r.rc != 0:
        if "panicked" in r.errtext():
            import re
            m = re.search(r"panicked at (\S+?):\d+", r.errtext())
            ctx.violation("panic@" + (m.group(1) if m else "?"), f"wild panicked during a string-merge link: {r.errtext()[:300]}",
                          case=cid, files=files)
        else:
            ctx.inconclusive(f"link failed rc={r.rc}: {r.errtext()[:100]}")
        return
    V, stats = mergetrace.check(evs, link_ok=True, complete=True)
    for sig, desc in V:
        ctx.violation(sig, desc, case=cid, files=files)
    if canon is not None and variant == "hook" and file_sha(out) != canon.get((P, B)):
        ctx.violation("merged-bytes-differ-from-single-thread", "output bytes differ from the --threads=1 output", case=cid, files=files)
        return
    if V:
        return
    fp = "-".join(s["fingerprint"] for s in stats)
    tot = lambda k: sum(s.get(k, 0) for s in stats)
    for k in ("events", "bucket_takes", "bucket_parks", "park_resume_handoffs", "reservations",
              "failed_reservations_insufficient", "failed_reservations_lost_cas"):
        ctx.note(k, tot(k))
    ctx.note("merges", len(stats))
    ctx.note_max("max_G", max([s.get("G", 0) for s in stats] or [0]))
    ctx.note_set("P_seen", P)
    ctx.note_set("B_seen", B)
    nontrivial = any(s.get("G", 0) >= 2 for s in stats) and tot("bucket_takes") >= 32
    ctx.held(fingerprint=fp, nontrivial=nontrivial,
             sample={"case": cid, "merges": [(s.get("G"), s.get("B")) for s in stats], "failed_reservations":
                     tot("failed_reservations_insufficient") + tot("failed_reservations_lost_cas"),
                     "park_resume": tot("park_resume_handoffs")} if sseed % 7 == 1 else None)


def main(ctx):
    ctx.rule = ("one case = one real link of string-heavy objects under (split parallelism P, min group bytes B, threads, "
                "perturbation seed/intensity/sites); non-trivial = some merge had >=2 input groups and >=32 bucket takes and the "
                "whole event log satisfied the sequential model; distinct = fingerprint of the first 4000 events of each merge")
    ctx.assumptions = ["slot transitions and bucket takes are logged under the slot lock (log order = lock order per slot)",
                       "reservation events are not atomic with the counter: only conservation and per-event sanity are checked",
                       "liveness restated: every observed merge ended with all buckets finished and the pool full"]
    tools.wild()
    nlinks = ctx.pick(4, 16)
    seeds = ctx.pick(8, 48)
    PB = [(1, 256), (2, 256), (3, 512), (8, 256), (24, 4096), (2, 140000), (4, 1024)]
    jobs = []
    links = []
    for li in range(nlinks):
        r = rng("C40", ctx.seed, "link", li)
        objs = gen_objects(ctx, r, li)
        canon = {}
        cfgs = []
        for s in range(seeds):
            P, B = r.choice(PB)
            cfgs.append((P, B, r.choice([1, 2, 4, 16]), ctx.seed * 1000 + s + 1, r.choice([20, 50, 90]), r.choice(SITES)))
        for P, B in sorted({(c[0], c[1]) for c in cfgs}):
            d = ctx.scratch.dir("canon", li, f"{P}-{B}")
            out = os.path.join(d, "out")
            rc = tools.link("wild", [*objs, "--no-fork", "--threads=1", f"--wild-experiments={P},{B}", "--no-gc-sections", "-o", out])
            if rc.ok:
                canon[(P, B)] = file_sha(out)
        if not canon:
            ctx.inconclusive("canonical links failed")
            continue
        # all (P,B) settings must give the same bytes as well (partitioning is not observable)
        if len(set(canon.values())) > 1:
            ctx.violation("merged-bytes-depend-on-partitioning", "single-thread outputs differ between --wild-experiments settings",
                          case=f"{li}.canon")
        links.append((li, objs))
        for c in cfgs:
            if (c[0], c[1]) in canon:
                jobs.append((li, objs, canon, c))
    pmap(lambda j: one(ctx, *j), jobs, workers=6)
    if not ctx.quick:
        ts = tools.build.try_ensure("tsan")
        if ts is None:
            ctx.note("tsan_variant_unavailable")
        else:
            tj = [(li, objs, None, (3, 256, 8, ctx.seed * 1000 + 500 + s, 50, SITES[1]), "tsan") for li, objs in links[:4] for s in range(3)]
            pmap(lambda j: one(ctx, *j), tj, workers=4)
            ctx.note("tsan_links", len(tj))
