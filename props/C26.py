"""C26 Diagnostics are deterministic.

Oracle: for a fixed failing (or warning) link, stderr (colour stripped; warnings compared as a
sorted set, the error text exactly) must be the same under every thread count, files-per-group
setting and perturbed schedule. The reference observation is the first run; any two runs that
differ refute the property.
Workload: links with k independent errors spread over different objects (undefined symbols,
duplicate strong symbols, overflowing relocations, unterminated merge strings, mixed) and
warning-only links, each under many schedules.
"""
import os
import re

from vlib import tools
from vlib.common import pmap, rng, strip_ansi

LEVEL = "exploration"


def norm(text, scratch):
    """Splits stderr into messages (a line starting with 'wild:' plus its indented continuation
    lines). Returns (errors in order, sorted set of warnings)."""
    t = strip_ansi(text).replace(scratch, "$S")
    t = re.sub(r"-[0-9a-f]{24}\.o", ".o", t)
    msgs, cur = [], None
    for l in t.splitlines():
        if not l.strip():
            continue
        if l.startswith("wild:") or cur is None:
            cur = [l.rstrip()]
            msgs.append(cur)
        else:
            cur.append(l.rstrip())
    msgs = ["\n".join(m) for m in msgs]
    warns = sorted(m for m in msgs if m.lower().startswith("wild: warning"))
    rest = [m for m in msgs if not m.lower().startswith("wild: warning")]
    return "\n".join(rest), tuple(warns)


def gen_link(ctx, r, li):
    """Returns (kind, args)."""
    kind = r.choice(["undefined", "undefined", "duplicate", "overflow", "unterminated-string", "mixed", "warn-unresolved"])
    k = r.randint(2, 8)
    nfill = r.randint(0, 6)
    objs = []
    start = [".globl _start\n.text\n_start:\n"]
    for i in range(k + nfill):
        start.append(f"    call g{li}_{i}\n")
    start.append("    mov $60,%eax\n    syscall\n")
    objs.append(tools.assemble(ctx, "".join(start), name=f"c26-{li}-start"))
    bad = set(r.sample(range(k + nfill), k))
    for i in range(k + nfill):
        s = [f'.globl g{li}_{i}\n.section .text.g{i},"ax",@progbits\ng{li}_{i}:\n']
        mode = kind
        if kind == "mixed":
            mode = r.choice(["undefined", "overflow", "duplicate"])
        if i in bad:
            if mode in ("undefined", "warn-unresolved"):
                s.append(f"    call missing_{li}_{i}\n")
            elif mode == "overflow":
                s.append(f"    movl $big_{i}, %eax\n")
            elif mode == "unterminated-string":
                s.append(f'    lea ustr{i}(%rip),%rax\n')
        s.append("    ret\n")
        if i in bad and mode == "duplicate":
            s.append(f".globl dup_{li}_{i % 3}\ndup_{li}_{i % 3}: ret\n")
        if i in bad and mode == "unterminated-string":
            s.append(f'.section .rodata.str1.1,"aMS",@progbits,1\nustr{i}: .ascii "no terminator {i}"\n')
        objs.append(tools.assemble(ctx, "".join(s), name=f"c26-{li}-{i}"))
    args = list(objs)
    if kind in ("overflow", "mixed"):
        for i in range(k + nfill):
            args.append(f"--defsym=big_{i}=0x1{i:02x}000000")
    if kind == "duplicate" or kind == "mixed":
        # make sure duplicates really exist: a second definer of each dup name
        s = "".join(f".globl dup_{li}_{j}\ndup_{li}_{j}: ret\n" for j in range(3))
        args.append(tools.assemble(ctx, s, name=f"c26-{li}-dups"))
    if kind == "warn-unresolved":
        args.append("--warn-unresolved-symbols")
    return kind, args


def main(ctx):
    ctx.rule = ("one case = one failing or warning link re-run under a list of schedules (threads, files-per-group, "
                "perturbation seed); non-trivial = every run produced a diagnostic and >= 2 independent errors/warnings exist "
                "in the inputs; distinct = (link, number of schedules compared)")
    ctx.assumptions = ["paths are normalised; warnings are compared as a set (their order is not promised), errors exactly"]
    tools.wild()
    nlinks = ctx.pick(20, 200)
    nsched = ctx.pick(16, 60)

    def one(li):
        if ctx.replay is not None and str(ctx.replay.get("case")) != str(li):
            return
        r = rng("C26", ctx.seed, li)
        kind, args = gen_link(ctx, r, li)
        wd = ctx.scratch.dir("c", li)
        scheds = [(1, 0, None)]
        for s in range(nsched):
            scheds.append((r.choice([1, 2, 4, 16]), r.choice([0, 1, 1, 2]), r.choice([None, r.randrange(1, 10**6)])))
        seen = {}
        rcs = set()
        for si, (threads, fpg, sseed) in enumerate(scheds):
            env = {}
            if fpg:
                env["WILD_FILES_PER_GROUP"] = str(fpg)
            if sseed:
                env["WILD_VERIF_SCHED"] = f"{sseed}:50"
            out = os.path.join(wd, f"out{si}")
            res = tools.link("wild", [*args, "--no-fork", f"--threads={threads}", "-o", out], extra_env=env, timeout=120)
            if res.timed_out:
                ctx.inconclusive("watchdog fired")
                return
            if "panicked" in res.errtext():
                ctx.inconclusive("panic (see C22)")
                return
            key = norm(res.errtext(), ctx.scratch.path)
            rcs.add(res.rc != 0)
            # The property quantifies over thread counts and schedules: runs are compared within
            # one files-per-group setting (a partitioning knob that the statement does not list).
            seen.setdefault(fpg, {}).setdefault(key, []).append((threads, fpg, sseed))
        ctx.note(f"kind:{kind}")
        if len(rcs) > 1:
            ctx.violation(f"exit-status-varies:{kind}", f"the same link ({kind}) succeeds under some schedules and fails under others",
                          case=li, files={"args.txt": " ".join(args)})
            return
        allseen = seen
        worst = max(allseen.values(), key=len)
        seen = worst
        if len(seen) > 1:
            errs = {k[0] for k in seen}
            warns = {k[1] for k in seen}
            what = "which-error" if len(errs) > 1 else "warning-set"
            # Messages that only differ in internal numeric ids (file ids, symbol ids: they depend
            # on how inputs were grouped, hence on the thread count) are a separate, cosmetic class.
            def mask(t):
                t = re.sub(r"file #\d+ \(\d+/\d+\)", "file #N", t)
                t = re.sub(r"\(\d+ \(\d+/\d+\)\)", "(N)", t)
                t = re.sub(r"\(\d+ local=\d+\)", "(N)", t)
                t = re.sub(r"defined as \d+", "defined as N", t)
                return t
            if len({(mask(k[0]), tuple(mask(w) for w in k[1])) for k in seen}) == 1:
                what = "internal-ids-in-message"
            ex = list(seen.items())[:3]
            desc = "; ".join(f"{v[0]} -> {k[0][:160]!r} warns={len(k[1])}" for k, v in ex)
            ctx.violation(f"diagnostic-varies:{kind}:{what}", f"{len(seen)} different diagnostics for one link across {len(scheds)} schedules: {desc}",
                          case=li, files={"args.txt": " ".join(args), "variants.txt": "\n====\n".join(f"{v}\n{k[0]}\n{k[1]}" for k, v in seen.items())})
            return
        key = next(iter(seen))
        if not key[0] and not key[1]:
            ctx.inconclusive("link produced no diagnostic")
            return
        ctx.held(fingerprint=f"{li}:{kind}:{len(scheds)}", nontrivial=True,
                 sample={"kind": kind, "schedules": len(scheds), "diagnostic": (key[0] or "\n".join(key[1]))[:200]} if li < 3 else None)
    pmap(one, range(nlinks), workers=8)
