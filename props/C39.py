"""C39 Parallel layout traversal loses no work and always finishes.

Monitor: the H3 event log of the real traversal (push/take events are emitted under the slot lock,
so log order per slot is lock order) is replayed against a sequential model of the slot protocol
(vlib/mon/slottrace.py): every pushed item handled exactly once by its group, no handle before its
push, no overlapping handling of one group, slot/parked bookkeeping consistent, all groups parked
with empty slots at the end. Hangs are decided logically (quiescent process + pushed-but-unhandled
item). The output must equal the single-thread output. Workload: many-object dense reference
graphs x files-per-group x thread counts x H2 perturbation seeds (hand-off windows emphasised).
"""
import os

from vlib import manyobj, tools
from vlib.common import file_sha, pmap, rng, write
from vlib.mon import hang, slottrace

LEVEL = "exploration"

SITES = ["", "window: send_work,window: do_pending_work,window: before activations",
         "Activate group,Work with object,window:"]


def one(ctx, li, objs, canon, cfg, variant="hook"):
    fpg, threads, sseed, pct, sites = cfg
    cid = f"{li}.fpg{fpg}.t{threads}.s{sseed}.p{pct}.k{SITES.index(sites)}"
    if ctx.replay is not None and ctx.replay.get("case") != cid:
        return
    wd = ctx.scratch.dir("c", cid)
    out = os.path.join(wd, "out")
    evlog = os.path.join(wd, "ev.log")
    env = {"WILD_VERIF_EVLOG": evlog, "WILD_VERIF_SCHED": f"{sseed}:{pct}"}
    if fpg:
        env["WILD_FILES_PER_GROUP"] = str(fpg)
    if sites:
        env["WILD_VERIF_SCHED_SITES"] = sites
    cmd = [tools.wild(variant), *objs, "--no-fork", f"--threads={threads}", "-o", out]
    r, hinfo = hang.run_watch(cmd, extra_env=env, timeout=180 if variant == "hook" else 600)
    evs = slottrace.parse(evlog) if os.path.exists(evlog) else []
    if r.timed_out:
        w = slottrace.hang_witness(evs)
        if hinfo and hinfo["quiescent"] and w:
            ctx.violation("hang:quiescent-with-unhandled-work", f"process quiescent past the watchdog; {w}", case=cid,
                          files={"ev.log": evlog, "cmd.txt": " ".join(cmd) + "\n" + str(env)})
        else:
            ctx.inconclusive("watchdog fired (not a provable hang)")
        return
    if variant == "tsan" and r.rc == 66:
        rep = r.errtext()
        import re
        frames = re.findall(r"#\d+ (\S+) .*?(libwild/src/\S+?):\d+", rep)
        sig = "tsan-race:" + (frames[0][1] + ":" + frames[0][0] if frames else "no-in-repo-frame")
        if frames:
            ctx.violation(sig, "ThreadSanitizer reported a data race during the layout traversal", case=cid,
                          files={"tsan.txt": rep})
        else:
            ctx.inconclusive("tsan report without an in-repo frame")
        return
    if r.rc != 0:
        ctx.inconclusive(f"link failed rc={r.rc}: {r.errtext()[:100]}")
        return
    V, st = slottrace.check(evs, link_ok=True, complete=True)
    for sig, desc in V:
        ctx.violation(sig, desc, case=cid, files={"ev.log": evlog, "cmd.txt": " ".join(cmd) + "\n" + str(env)})
    if canon is not None and variant == "hook":
        if file_sha(out) != canon:
            ctx.violation("kept-set-differs-from-single-thread", "output bytes differ from the --threads=1 output", case=cid,
                          files={"cmd.txt": " ".join(cmd) + "\n" + str(env)})
            return
    if V:
        return
    for k in ("events", "items_handled", "remote_pushes", "local_pushes", "push_hit_parked_worker",
              "push_hit_running_worker", "push_arrived_before_first_run", "swaps", "parks"):
        ctx.note(k, st.get(k, 0))
    ctx.note_max("max_concurrent_groups", st.get("max_concurrent_groups", 0))
    ctx.note_max("max_groups", st.get("groups", 0))
    nontrivial = st.get("remote_pushes", 0) >= 2 and st.get("groups", 0) >= 2
    ctx.held(fingerprint=st["fingerprint"], nontrivial=nontrivial,
             sample={"case": cid, "events": st["events"], "groups": st.get("groups"), "remote_pushes": st.get("remote_pushes"),
                     "hit_parked": st.get("push_hit_parked_worker"), "hit_running": st.get("push_hit_running_worker"),
                     "before_first_run": st.get("push_arrived_before_first_run")} if sseed == 1 else None)


def main(ctx):
    ctx.rule = ("one case = one real link of a generated many-object program under (files-per-group, threads, perturbation "
                "seed, intensity, site emphasis); non-trivial = >=2 groups exchanged >=2 remote requests and the whole event "
                "log satisfied the sequential slot model; distinct = fingerprint of the first 3000 (event kind, group) pairs, "
                "i.e. distinct observed interleavings")
    ctx.assumptions = ["events that shadow slot state are emitted under the slot lock, so log order per slot is lock order",
                       "work items are identified by (group, kind, payload); exactly-once is multiset equality per group",
                       "liveness is restated as: every observed execution terminated with all groups parked and no pending work"]
    tools.wild()
    nlinks = ctx.pick(4, 16)
    seeds = ctx.pick(10, 48)
    links = []
    for li in range(nlinks):
        r = rng("C39", ctx.seed, "link", li)
        if li % 4 == 3:
            # ping-pong chains: every hop is a cross-group request arriving in the hand-off window
            objs = manyobj.build_pingpong(ctx, r, pairs=r.choice([10, 12, 16]), chain=ctx.pick(2000, 4000), tag=f"pp{li}")
        else:
            n = r.choice([40, 80, 150] if ctx.quick else [50, 120, 300, 800, 2000])
            objs = manyobj.build(ctx, r, n, f"l{li}", fns_per_obj=r.choice([2, 3, 4]), fanout=r.choice([2, 3, 5]))
        d = ctx.scratch.dir("canon", li)
        out = os.path.join(d, "out")
        rc = tools.link("wild", [*objs, "--no-fork", "--threads=1", "-o", out])
        if not rc.ok:
            ctx.inconclusive(f"canonical link failed: {rc.errtext()[:100]}")
            continue
        links.append((li, objs, file_sha(out)))
    jobs = []
    for li, objs, canon in links:
        r = rng("C39", ctx.seed, "cfg", li)
        for s in range(seeds):
            fpg = 1 if li % 4 == 3 else r.choice([1, 1, 2, 5, 0])
            threads = r.choice([8, 16, 16]) if li % 4 == 3 else r.choice([2, 3, 4, 8, 16])
            pct = r.choice([20, 50, 80])
            sites = r.choice(SITES)
            jobs.append((li, objs, canon, (fpg, threads, ctx.seed * 1000 + s + 1, pct, sites)))
    pmap(lambda j: one(ctx, *j), jobs, workers=6)
    if not ctx.quick:
        ts = tools.build.try_ensure("tsan")
        if ts is None:
            ctx.note("tsan_variant_unavailable")
        else:
            tj = []
            for li, objs, canon in links[:4]:
                for s in range(4):
                    tj.append((li, objs, None, (1, 8, ctx.seed * 1000 + 500 + s, 50, SITES[1]), "tsan"))
            pmap(lambda j: one(ctx, *j), tj, workers=4)
            ctx.note("tsan_links", len(tj))
