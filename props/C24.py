"""C24 Save-dir bundles replay to an identical output.

Oracle: a freestanding link is run once plainly (calibration: must succeed),
once with WILD_SAVE_DIR=<dir>; then `<dir>/run-with <wild>` is executed from a different working
directory with OUT unset, and `<dir>/bin` must be byte-identical to the original output. Each case
puts one hostile character class into one position of the command line (single fault), so a failing
replay is attributed directly to (position, character class).
"""
import os
import shutil

from vlib import tools
from vlib.common import log, pmap, rng, run, write, read, HarnessError

LEVEL = "exploration"

MAIN_S = """.globl _start
.text
_start:
    call f1
    mov %eax,%edi
    mov $60,%eax
    syscall
"""
B_S = """.globl f1
.text
f1:
    mov $7,%eax
    ret
.data
.globl d1
d1: .quad 0x1122334455667788
"""
SO_MAIN_S = """.globl api
.text
api:
    mov $3,%eax
    ret
"""

# character classes: name -> text inserted in the middle of (or in front of) a file/dir/value name
CLASSES = {
    "plain": ("mid", "_"),
    "space": ("mid", " "),
    "newline": ("mid", "\n"),
    "single-quote": ("mid", "'"),
    "double-quote": ("mid", '"'),
    "dollar": ("mid", "$"),
    "backslash": ("mid", "\\"),
    "semicolon": ("mid", ";"),
    "ampersand": ("mid", "&"),
    "pipe": ("mid", "|"),
    "paren-open": ("mid", "("),
    "paren-close": ("mid", ")"),
    "greater-than": ("mid", ">"),
    "backtick": ("mid", "`"),
    "star": ("mid", "*"),
    "question": ("mid", "?"),
    "bracket": ("mid", "[q]"),
    "brace": ("mid", "{a,b}"),
    "hash": ("lead", "#"),
    "tilde": ("lead", "~"),
    "bang": ("mid", "!"),
    "leading-dash": ("lead", "-"),
    "utf8": ("mid", "é✓"),
}


def hostile(cls, stem="hx"):
    pos, t = CLASSES[cls]
    if pos == "lead":
        return t + stem
    return stem[:1] + t + stem[1:]


# where the hostile text sits -> group used in the signature (kind of argument)
ROLES = {
    "object-file-name": "existing-file-argument",
    "directory-name": "existing-file-argument",
    "L-directory": "existing-file-argument",
    "linker-script-path": "existing-file-argument",
    "thin-archive-path": "existing-file-argument",
    "archive-path": "existing-file-argument",
    "option-equals-path": "existing-file-argument",
    "l-library-name": "library-name-argument",
    "option-value": "non-file-argument",
    "option-value-joined": "non-file-argument",
    "output-path": "output-path",
    "response-file-path": "response-file-path",
    "response-file-content": "response-file-content",
    "nested-response-file-content": "response-file-content",
    "linker-script-input-path": "path-inside-linker-script",
    "thin-archive-member": "thin-archive-member",
    "save-dir-path": "save-dir-path",
    "sysroot-script": "path-inside-sysroot-script",
    "sysroot-relative-L": "sysroot-relative-L-option",
}
SHAPES = ["relative", "absolute", "dotdot", "symlink-dir"]


def rsp_quote(a):
    """Quotes one argument for wild's response-file syntax (quotes group, backslash escapes)."""
    if a and not any(c in a for c in " \t\n'\"\\"):
        return a
    if "'" not in a and "\\" not in a:
        return "'" + a + "'"
    if '"' not in a and "\\" not in a:
        return '"' + a + '"'
    out = ""
    for c in a:
        if c in " \t\n'\"\\":
            out += "\\"
        out += c
    return out


class Skip(Exception):
    pass


def shape_path(work, rel, shape):
    """Returns the spelling of work/rel according to the path shape."""
    if shape == "relative":
        return rel
    if shape == "absolute":
        return os.path.join(work, rel)
    if shape == "dotdot":
        os.makedirs(os.path.join(work, "dd"), exist_ok=True)
        return os.path.join("dd", "..", rel)
    if shape == "symlink-dir":
        ln = os.path.join(os.path.dirname(work), "lnk")
        if not os.path.lexists(ln):
            os.symlink(work, ln)
        return os.path.join(ln, rel)
    raise AssertionError(shape)


def build_case(ctx, objs, sand, role, cls, shape, r):
    """Creates the files; returns (args, shared?). args exclude -o."""
    work = os.path.join(sand, "work")
    os.makedirs(work)
    h = hostile(cls)

    def put(src, rel):
        dst = os.path.join(work, rel)
        os.makedirs(os.path.dirname(dst), exist_ok=True)
        try:
            shutil.copy(src, dst)
        except OSError as ex:
            raise Skip(f"cannot create file: {ex}")
        return rel

    main = put(objs["main"], "main.o")
    args = [main]
    shared = False
    if role == "object-file-name":
        rel = put(objs["b"], h + ".o")
        sp = shape_path(work, rel, shape)
        if sp.startswith("-") or sp.startswith("@"):
            sp = "./" + sp
        args.append(sp)
    elif role == "directory-name":
        rel = put(objs["b"], os.path.join(h, "b.o"))
        sp = shape_path(work, rel, shape)
        if sp.startswith("-"):
            sp = "./" + sp
        args.append(sp)
    elif role == "L-directory":
        os.makedirs(os.path.join(work, h))
        tools.make_archive(os.path.join(work, h, "libfoo.a"), [objs["b"]])
        sp = shape_path(work, h, shape)
        args += (["-L", sp] if r.random() < 0.5 else ["-L" + sp]) + ["-lfoo"]
    elif role == "l-library-name":
        os.makedirs(os.path.join(work, "libs"))
        tools.make_archive(os.path.join(work, "libs", "lib" + h + ".a"), [objs["b"]])
        args += ["-L", shape_path(work, "libs", shape), "-l" + h]
    elif role == "archive-path":
        tools.make_archive(os.path.join(work, h + ".a"), [objs["b"]])
        sp = shape_path(work, h + ".a", shape)
        args.append("./" + sp if sp[0] in "-@" else sp)
    elif role == "thin-archive-path":
        put(objs["b"], "b.o")
        r0 = run(["ar", "rcsT", h + ".a", "b.o"], cwd=work)
        if not r0.ok:
            raise Skip("ar failed")
        sp = shape_path(work, h + ".a", shape)
        args.append("./" + sp if sp[0] in "-@" else sp)
    elif role == "thin-archive-member":
        put(objs["b"], h + ".o")
        member = h + ".o"
        r0 = run(["ar", "rcsT", "libt.a", "./" + member if member[0] == "-" else member], cwd=work)
        if not r0.ok:
            raise Skip("ar failed")
        args.append(shape_path(work, "libt.a", shape))
    elif role == "linker-script-path":
        put(objs["b"], "b.o")
        write(os.path.join(work, h + ".lds"), "INPUT(b.o)\n")
        sp = shape_path(work, h + ".lds", shape)
        args.append("./" + sp if sp[0] in "-@" else sp)
    elif role == "linker-script-input-path":
        put(objs["b"], h + ".o")
        p = os.path.join(work, h + ".o") if shape != "relative" else h + ".o"
        if '"' in p:
            raise Skip("name not expressible in a linker script")
        kw = r.choice(["INPUT", "GROUP"])
        write(os.path.join(work, "in.lds"), f'{kw}("{p}")\n')
        args.append("in.lds")
    elif role == "option-equals-path":
        shared = True
        args = [put(objs["somain"], "somain.o")]
        write(os.path.join(work, h + ".ver"), "V1 { global: api; local: *; };\n")
        args += ["--version-script=" + shape_path(work, h + ".ver", shape), "-soname=libfixed.so"]
    elif role in ("option-value", "option-value-joined"):
        shared = True
        args = [put(objs["somain"], "somain.o")]
        args += ["--soname=" + h] if role.endswith("joined") else ["-soname", h]
    elif role == "output-path":
        put(objs["b"], "b.o")
        args.append("b.o")
    elif role == "response-file-path":
        put(objs["b"], "b.o")
        write(os.path.join(work, h + ".rsp"), "b.o\n")
        args.append("@" + shape_path(work, h + ".rsp", shape))
    elif role == "response-file-content":
        rel = put(objs["b"], h + ".o")
        sp = shape_path(work, rel, shape)
        if sp[0] in "-@":
            sp = "./" + sp
        write(os.path.join(work, "a.rsp"), rsp_quote(sp) + "\n--gc-sections\n")
        args.append("@a.rsp")
    elif role == "nested-response-file-content":
        rel = put(objs["b"], h + ".o")
        sp = shape_path(work, rel, shape)
        if sp[0] in "-@":
            sp = "./" + sp
        write(os.path.join(work, "inner.rsp"), rsp_quote(sp) + "\n")
        write(os.path.join(work, "outer.rsp"), "--gc-sections @inner.rsp\n")
        args.append("@outer.rsp")
    elif role == "save-dir-path":
        put(objs["b"], "b.o")
        args.append("b.o")
    elif role == "sysroot-relative-L":
        # -L=dir / -L$SYSROOT/dir: the directory is looked up inside the sysroot
        sr = h + "-sysroot"
        os.makedirs(os.path.join(work, sr, "usr", "lib"))
        tools.make_archive(os.path.join(work, sr, "usr", "lib", "libfoo2.a"), [objs["b"]])
        sp = shape_path(work, sr, shape)
        args += ["--sysroot=" + sp] + r.choice([["-L=/usr/lib"], ["-L", "=/usr/lib"], ["-L$SYSROOT/usr/lib"]]) + ["-lfoo2"]
    elif role == "sysroot-script":
        # the cross-toolchain layout: a linker script inside the sysroot names libraries by absolute
        # paths, which the linker resolves inside the sysroot
        sr = h + "-sysroot"
        os.makedirs(os.path.join(work, sr, "usr", "lib"))
        tools.make_archive(os.path.join(work, sr, "usr", "lib", "libfoo1.a"), [objs["b"]])
        write(os.path.join(work, sr, "usr", "lib", "libscr.so"),
              f"/* GNU ld script */\n{r.choice(['GROUP', 'INPUT'])} ( /usr/lib/libfoo1.a )\n")
        sp = shape_path(work, sr, shape)
        args += ["--sysroot=" + sp, "-L", os.path.join(sp, "usr", "lib"), "-lscr"]
    else:
        raise AssertionError(role)
    if shared:
        args.append("-shared")
    return work, args, shared


def one_case(ctx, objs, cid, role, cls, shape, threads):
    r = rng("C24", ctx.seed, cid)
    sand = ctx.scratch.dir("s", cid)
    try:
        work, args, shared = build_case(ctx, objs, sand, role, cls, shape, r)
    except Skip as ex:
        ctx.inconclusive(f"generator: {ex}")
        return
    h = hostile(cls)
    outname = ("./" + h if h[0] == "-" else h) if role == "output-path" else "out.bin"
    savedir = os.path.join(sand, "sv", h if role == "save-dir-path" else "save")
    os.makedirs(os.path.dirname(savedir), exist_ok=True)
    extra = ["--threads=1"] if threads == 1 else []
    full = args + extra + ["-o", outname]
    wild = tools.wild()
    ctx.note("role:" + role)
    ctx.note("class:" + cls)
    ctx.note("shape:" + shape)
    # calibration: plain link, twice
    r1 = run([wild, *full], cwd=work, timeout=120)
    if r1.timed_out:
        ctx.inconclusive("watchdog")
        return
    if not r1.ok:
        ctx.inconclusive("original link fails without a save dir (not a save-dir matter)")
        ctx.note("plain-link-fails:" + role + ":" + cls)
        return
    outp = os.path.join(work, outname)
    b1 = read(outp)
    os.unlink(outp)
    # save
    r3 = run([wild, *full], cwd=work, timeout=120, extra_env={"WILD_SAVE_DIR": savedir})
    group = ROLES[role]
    files = {"work": work, "cmd.json": repr({"cwd": "work", "args": full, "WILD_SAVE_DIR": savedir})}
    if r3.timed_out:
        ctx.inconclusive("watchdog")
        return
    if not r3.ok:
        ctx.violation(f"save-link-fails:where={group}:name-class={cls}",
                      f"the link succeeds plainly but fails with WILD_SAVE_DIR set ({role}, {cls!r}): "
                      f"{r3.errtext().strip()[:300]}", case=cid, files=files,
                      info={"role": role, "class": cls, "shape": shape, "args": full})
        return
    if read(outp) != b1:
        ctx.inconclusive("original link not deterministic (plain and save-dir runs differ)")
        return
    script = os.path.join(savedir, "run-with")
    if not os.path.exists(script):
        ctx.violation(f"no-run-with:where={group}:name-class={cls}", "save dir has no run-with script", case=cid, files=files)
        return
    files["save"] = savedir
    rcwd = os.path.join(sand, "elsewhere")
    os.makedirs(rcwd)
    env = {"PATH": os.environ.get("PATH", "/usr/bin:/bin"), "HOME": os.path.join(sand, "home")}
    rr = run([script, wild], cwd=rcwd, timeout=120, env=env)
    files["replay-stderr.txt"] = rr.errtext() or "(empty)"
    if rr.timed_out:
        ctx.inconclusive("watchdog")
        return
    produced = os.path.join(savedir, "bin")
    info = {"role": role, "class": cls, "shape": shape, "threads": threads, "args": full, "hostile-text": h,
            "replay": f"cd {rcwd} && env -u OUT {script} {wild}"}
    tail = rr.errtext().strip().replace("\n", " | ")[:300]
    if not rr.ok:
        ctx.violation(f"replay-fails:where={group}:name-class={cls}",
                      f"run-with exits {rr.rc} when the {role} contains {CLASSES[cls][1]!r}: {tail}", case=cid, files=files, info=info)
        return
    if not os.path.exists(produced):
        ctx.violation(f"replay-no-output:where={group}:name-class={cls}",
                      f"run-with exits 0 but $D/bin is missing when the {role} contains {CLASSES[cls][1]!r}: {tail}",
                      case=cid, files=files, info=info)
        return
    if read(produced) != b1:
        ctx.violation(f"output-differs:where={group}:name-class={cls}",
                      f"replayed output differs from the original when the {role} contains {CLASSES[cls][1]!r}",
                      case=cid, files=files, info=info)
        return
    stray = sorted(os.listdir(rcwd))
    if stray:
        ctx.violation(f"replay-side-effect:where={group}:name-class={cls}",
                      f"replay created {stray[:3]} in its working directory", case=cid, files=files, info=info)
        return
    ctx.held(fingerprint=f"{role}|{cls}|{shape}|{threads}", nontrivial=True,
             sample={"role": role, "class": cls, "shape": shape, "args": full} if cls in ("space", "utf8") and role.startswith("o") else None)


def main(ctx):
    ctx.rule = ("one hostile character class in one command-line position per case (17 positions x 23 classes, plus "
                "path shapes relative/absolute/../symlinked dir and threads 1/default); a case counts when the plain "
                "link succeeds deterministically and the save-dir link produced the same bytes; distinct = "
                "(position, class, shape, threads)")
    ctx.assumptions = ["same wild binary for link and replay", "replay runs with OUT unset so the output is $D/bin",
                       "names the plain link itself cannot take (e.g. leading dash) are not judged"]
    tools.wild()
    objs = {"main": tools.assemble(ctx, MAIN_S), "b": tools.assemble(ctx, B_S), "somain": tools.assemble(ctx, SO_MAIN_S)}
    cases = []
    # full grid (deterministic, so every seed re-observes the same signatures)
    # quick: every class on one representative position per argument kind, the key classes on the other
    # positions; thorough: the whole grid
    seen_groups = set()
    for role, group in ROLES.items():
        rep = group not in seen_groups
        seen_groups.add(group)
        for cls in CLASSES:
            if rep or not ctx.quick or cls in ("plain", "space", "single-quote", "dollar"):
                cases.append((role, cls, "relative", 0))
    r = rng("C24", ctx.seed, "extra")
    for _ in range(ctx.pick(40, 1000)):
        cases.append((r.choice(list(ROLES)), r.choice(list(CLASSES)), r.choice(SHAPES), r.choice([0, 1])))
    ids = {f"{n}-{c[0]}-{c[1]}-{c[2]}": c for n, c in enumerate(cases)}
    if ctx.replay is not None:
        ids = {k: v for k, v in ids.items() if k == str(ctx.replay.get("case"))}
    pmap(lambda kv: one_case(ctx, objs, kv[0], *kv[1]), list(ids.items()))
