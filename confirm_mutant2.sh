#!/bin/bash
# Usage: confirm_mutant.sh <ID> <srcdir> [check props...]
# Confirms a seeded change independently: applies it in a scratch worktree (never /repo), builds,
# runs the author's demonstration against the unchanged and the changed build, runs the repository
# test suite on the changed tree, then runs the given checks against it. Results: seeded/<ID>/confirm.log
set -u
id=$1; src=$2; shift 2
dst=/verif/seeded/$id; mkdir -p $dst
cp -r $src/. $dst/ 2>/dev/null
log=$dst/confirm.log; if [ "${PHASE:-AB}" = "B" ]; then echo "== phase B" >> $log; else : > $log; fi
wt=/tmp/mutwt-$id
[ -d $wt ] || git -C /repo worktree add --detach $wt HEAD >>$log 2>&1
(cd $wt && git checkout -q -- . && git apply $dst/patch.diff) >>$log 2>&1 || { echo "RESULT patch-does-not-apply" >>$log; exit 1; }
echo "== build changed tree (hook build)" >>$log
(cd $wt && RUSTFLAGS="--cfg wild_verif" CARGO_NET_OFFLINE=true CARGO_TARGET_DIR=/verif/.build-mut/${STREAM:-s0}/hook cargo build --offline --profile opt -p wild-linker -p linker-diff) >>$log 2>&1 || { echo "RESULT build-failed" >>$log; exit 1; }
changed=/verif/.build-mut/${STREAM:-s0}/hook/opt/wild
base=/verif/.build/hook/opt/wild
if [ -f $dst/demo.sh ] && [ "${PHASE:-AB}" != "B" ]; then
  chmod +x $dst/demo.sh
  for i in $(seq 1 ${DEMO_RUNS:-1}); do (cd $dst && timeout 2400 ./demo.sh $base) >>$log 2>&1; echo "demo unchanged run$i rc=$?" >>$log; done
  (cd $dst && timeout 1800 ./demo.sh $changed) >>$log 2>&1; echo "demo changed rc=$?" >>$log
fi
if [ "${PHASE:-AB}" = "A" ]; then SKIP_SUITE=1; fi
if [ -z "${SKIP_SUITE:-}" ]; then
echo "== test suite on changed tree" >>$log
(cd $wt && CARGO_TARGET_DIR=/verif/.build-mut/${STREAM:-s0}/test timeout 3600 cargo nextest run --workspace --no-fail-fast --tool-config-file pb:/w/lib/nextest.toml --profile pb --test-threads 6 --offline) > $dst/testsuite.log 2>&1
grep -E "Summary" $dst/testsuite.log >>$log
# tests that failed beyond the 4 always-failing ones are re-run alone (the machine may be overloaded:
# the suite gives every linked test program 2 s to run)
grep -E "^\s+FAIL" $dst/testsuite.log | sed 's/.*integration_tests //; s/.*libwild //' | sort -u | grep -v -E "check_sources_format|z-pack-relative-relocs|shared/symbolic-non-weak$|tls-apx-relocs/default" > $dst/extra_fail.txt
while read t; do
  [ -z "$t" ] && continue
  ok=0
  for a in 1 2 3; do
    if (cd $wt && CARGO_TARGET_DIR=/verif/.build-mut/${STREAM:-s0}/test timeout 1200 cargo test --offline -p wild-linker --test integration_tests -- "$t" 2>&1 | grep -q "test result: ok"); then ok=1; break; fi
  done
  echo "retest $t => $([ $ok = 1 ] && echo pass || echo FAIL)" >>$log
done < $dst/extra_fail.txt
fi
[ "${PHASE:-AB}" = "B" ] && set --
for p in "$@"; do
  for sd in 0 1; do
    VERIF_SEED=$sd VERIF_REPO=$wt VERIF_BUILD_DIR=/verif/.build-mut/${STREAM:-s0} VERIF_OUT_DIR=/verif/.scratch/mutout-$id /verif/check $p --tier quick > $dst/check-$p-quick-$sd.log 2>&1
    echo "check $p quick seed=$sd rc=$? $(grep -o 'signature=[^ ]*' $dst/check-$p-quick-$sd.log | sort -u | head -5 | tr '\n' ' ')" >>$log
  done
done
true
echo "RESULT done" >>$log
