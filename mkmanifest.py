#!/usr/bin/env python3
"""Regenerates MANIFEST.json from the registry below. Run after adding/removing a driver."""
import json
import os
import subprocess

HERE = os.path.dirname(os.path.abspath(__file__))

# id -> (category, level text, level note, technique, design_ref)
CHECKS = {}
NOT_APPLICABLE = {}


def reg(pid, category, text, note, technique):
    CHECKS[pid] = (category, text, note, technique)


exec(open(os.path.join(HERE, "manifest_src.py")).read())

all_ids = [json.loads(l)["id"] for l in open(os.path.join(HERE, "properties.jsonl"))]
checks = []
for pid in all_ids:
    if pid not in CHECKS:
        continue
    if not os.path.exists(os.path.join(HERE, "props", pid + ".py")):
        raise SystemExit(f"{pid} registered but props/{pid}.py missing")
    cat, text, note, tech = CHECKS[pid]
    checks.append({
        "property_id": pid,
        "quick_cmd": f"./check {pid} --tier quick",
        "thorough_cmd": f"./check {pid} --tier thorough",
        "evidence_file": f"/verif/evidence/{pid}.json",
        "replay_cmd_template": f"./check {pid} --replay {{path}}",
        "engine": "runtime-monitor",
        "level_claimed": {"category": cat, "text": text, "design_ref": f"DESIGN.md section 7, {pid}"},
        "level_note": note,
        "technique": tech,
    })
na = []
for pid in all_ids:
    if pid in CHECKS:
        continue
    na.append({"property_id": pid, "reason": NOT_APPLICABLE.get(pid, "check not built yet in this round; no claim is made")})

commits = subprocess.run(["git", "-C", "/repo", "log", "--format=%h %s", "d9a18dc..HEAD"], capture_output=True,
                         text=True).stdout.splitlines()
hook_commits = [c.split()[0] for c in commits if c.split(" ", 1)[1].startswith("verif hooks")]
m = {
    "version": 1,
    "setup_cmd": "./check --setup",
    "hooks": {
        "guard": "wild_verif",
        "enable": "RUSTFLAGS=\"--cfg wild_verif\" cargo build --offline --profile opt -p wild-linker -p linker-diff (target dir /verif/.build/hook)",
        "baseline_off_cmd": "cd /repo && cargo nextest run --workspace --no-fail-fast --tool-config-file pb:/w/lib/nextest.toml --profile pb --test-threads 8 --offline",
        "source_commits": hook_commits,
        "add_only": True,
    },
    "engines": [{
        "name": "runtime-monitor",
        "path": "/verif/check",
        "serves_properties": sorted(CHECKS),
        "kind_free_text": "runtime monitoring: the real wild binary (built with cfg-guarded hooks) is run on generated, hostile and perturbed workloads; deterministic oracles over outputs, exit statuses, file-system effects, event logs and reference linkers decide; sanitizer builds amplify in thorough tiers",
    }],
    "checks": checks,
    "notes": "See DESIGN.md. Exit 0 held / 1 violation (VIOLATION line) / 2 harness error. Known findings: known_findings.json.",
    "not_applicable": na,
}
json.dump(m, open(os.path.join(HERE, "MANIFEST.json"), "w"), indent=1)
print(f"MANIFEST.json: {len(checks)} checks, {len(na)} not claimed")

# Plain-text rendering of known_findings.json (same content, one line per entry) for human readers.
kf = json.load(open(os.path.join(HERE, "known_findings.json")))
with open(os.path.join(HERE, "known_findings.txt"), "w") as f:
    f.write("# generated from known_findings.json by mkmanifest.py; the checks read the JSON file\n")
    for e in kf["findings"]:
        if e.get("status") == "fixed":
            f.write(e["text"] + "\n")
    for e in kf["findings"]:
        if e.get("status", "known") == "known":
            f.write(f"known: property={e['property']} signature={e['signature']} :: {e['description']}\n")
