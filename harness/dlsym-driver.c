/* dlsym-driver: the real consumer of dynamic symbol hash tables and version tables (C08, C32).
 *
 *   dlsym-driver <lib.so | -> <listfile>
 *
 * "-" means the running program itself (RTLD_DEFAULT): the driver is then linked, by the linker
 * under test, together with the generated objects into an -E executable.
 *
 * List lines (space separated):
 *   D <name> <id>          dlsym(name) must be a function returning <id>
 *   V <name> <ver> <id>    dlvsym(name, ver) must be a function returning <id>
 *   A <name>               dlsym(name) must fail (symbol absent)
 *   W <name> <ver>         dlvsym(name, ver) must fail
 * Output: one "FAIL ..." line per failed expectation, then "DONE checked=<n> fail=<m>".
 * Exit status 0 whenever the list was processed completely (failures are in the output), 3 when
 * the library could not be loaded ("LOADFAIL <dlerror>"), 2 on usage errors.
 */
#define _GNU_SOURCE
#include <dlfcn.h>
#include <stdio.h>
#include <stdlib.h>
#include <string.h>

typedef int (*fn_t)(void);

int main(int argc, char **argv) {
    if (argc != 3) {
        fprintf(stderr, "usage: %s <lib|-> <list>\n", argv[0]);
        return 2;
    }
    void *h;
    if (strcmp(argv[1], "-") == 0) {
        h = RTLD_DEFAULT;
    } else {
        h = dlopen(argv[1], RTLD_LAZY | RTLD_LOCAL);
        if (!h) {
            printf("LOADFAIL %s\n", dlerror());
            return 3;
        }
    }
    FILE *f = fopen(argv[2], "r");
    if (!f) {
        perror(argv[2]);
        return 2;
    }
    static char line[1 << 16];
    long checked = 0, fail = 0;
    while (fgets(line, sizeof line, f)) {
        char *save = NULL;
        char *kind = strtok_r(line, " \n", &save);
        if (!kind || !*kind) continue;
        char *name = strtok_r(NULL, " \n", &save);
        if (!name) continue;
        checked++;
        if (kind[0] == 'D' || kind[0] == 'V') {
            char *ver = NULL;
            if (kind[0] == 'V') ver = strtok_r(NULL, " \n", &save);
            char *ids = strtok_r(NULL, " \n", &save);
            if (!ids) { fprintf(stderr, "bad list line for %s\n", name); return 2; }
            long id = strtol(ids, NULL, 0);
            dlerror();
            void *p = ver ? dlvsym(h, name, ver) : dlsym(h, name);
            if (!p) {
                fail++;
                printf("FAIL notfound %s %s\n", name, ver ? ver : "-");
                continue;
            }
            long got = ((fn_t)p)();
            if (got != id) {
                fail++;
                printf("FAIL wrongid %s %s want=%ld got=%ld\n", name, ver ? ver : "-", id, got);
            }
        } else if (kind[0] == 'A' || kind[0] == 'W') {
            char *ver = NULL;
            if (kind[0] == 'W') ver = strtok_r(NULL, " \n", &save);
            void *p = ver ? dlvsym(h, name, ver) : dlsym(h, name);
            if (p) {
                fail++;
                printf("FAIL unexpected %s %s\n", name, ver ? ver : "-");
            }
        } else {
            fprintf(stderr, "bad kind %s\n", kind);
            return 2;
        }
    }
    fclose(f);
    printf("DONE checked=%ld fail=%ld\n", checked, fail);
    return 0;
}
