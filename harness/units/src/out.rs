//! Aggregated JSON-lines output: counts per sub-space and mismatch classes with a few samples.
use std::cell::RefCell;
use std::collections::BTreeMap;
use std::panic::{self, AssertUnwindSafe};

thread_local! {
    pub static LAST_PANIC: RefCell<Option<(String, String)>> = const { RefCell::new(None) };
    static MISM: RefCell<BTreeMap<String, (u64, Vec<String>)>> = const { RefCell::new(BTreeMap::new()) };
}

pub fn esc(s: &str) -> String {
    let mut o = String::new();
    for c in s.chars() {
        match c {
            '"' => o.push_str("\\\""),
            '\\' => o.push_str("\\\\"),
            '\n' => o.push_str("\\n"),
            c if (c as u32) < 0x20 => o.push_str(&format!("\\u{:04x}", c as u32)),
            c => o.push(c),
        }
    }
    o
}

/// Prints a count record: `fields` is the inside of a JSON object (already formatted).
pub fn count(space: &str, fields: &str) {
    println!("{{\"t\":\"count\",\"space\":\"{}\",{}}}", esc(space), fields);
}

/// Prints any other record kind.
pub fn record(kind: &str, fields: &str) {
    println!("{{\"t\":\"{}\",{}}}", esc(kind), fields);
}

/// Registers a mismatch under `sig`; `sample` (inside of a JSON object) is kept for the first 3.
pub fn mismatch(sig: &str, sample: impl FnOnce() -> String) {
    MISM.with(|m| {
        let mut m = m.borrow_mut();
        let e = m.entry(sig.to_string()).or_insert((0, Vec::new()));
        e.0 += 1;
        if e.1.len() < 3 {
            e.1.push(sample());
        }
    });
}

pub fn flush() {
    MISM.with(|m| {
        for (sig, (n, samples)) in m.borrow().iter() {
            let s: Vec<String> = samples.iter().map(|x| format!("{{{x}}}")).collect();
            println!(
                "{{\"t\":\"mismatch\",\"sig\":\"{}\",\"n\":{},\"samples\":[{}]}}",
                esc(sig),
                n,
                s.join(",")
            );
        }
    });
}

/// Runs wild code, converting a panic into Err((location, message)).
pub fn guarded<T>(f: impl FnOnce() -> T) -> Result<T, (String, String)> {
    match panic::catch_unwind(AssertUnwindSafe(f)) {
        Ok(v) => Ok(v),
        Err(_) => Err(LAST_PANIC
            .with(|p| p.borrow_mut().take())
            .unwrap_or((String::new(), String::from("?")))),
    }
}

/// Stable location for signatures: file path relative to the repo, without line numbers.
pub fn panic_site(loc: &str) -> String {
    let file = loc.rsplit_once(':').map(|x| x.0).unwrap_or(loc);
    let file = file.trim_start_matches("/repo/");
    file.to_string()
}

/// Name of the self-validation mutant requested through UNITS_MUTANT ("" = none).
pub fn mutant() -> &'static str {
    static M: std::sync::OnceLock<String> = std::sync::OnceLock::new();
    M.get_or_init(|| std::env::var("UNITS_MUTANT").unwrap_or_default())
}
