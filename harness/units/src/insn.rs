//! C13: wild's instruction immediate encoders against the independent tables in `spec`.
use crate::out;
use crate::rng::Rng;
use crate::spec::{self, InsnRel, Kind, Pre, INSN_RELS, KINDS};
use linker_utils::elf::{
    AArch64Instruction as A, LoongArch64Instruction as L, RelocationInstruction as RI, RelocationKindInfo,
    RelocationSize, RiscVInstruction as R,
};

pub fn wild_insn(k: &Kind) -> Option<RI> {
    Some(match (k.arch, k.name) {
        ("aarch64", "Adr") => RI::AArch64(A::Adr),
        ("aarch64", "Movkz") => RI::AArch64(A::Movkz),
        ("aarch64", "Movnz") => RI::AArch64(A::Movnz),
        ("aarch64", "Ldr") => RI::AArch64(A::Ldr),
        ("aarch64", "LdrRegister") => RI::AArch64(A::LdrRegister),
        ("aarch64", "Add") => RI::AArch64(A::Add),
        ("aarch64", "LdSt") => RI::AArch64(A::LdSt),
        ("aarch64", "TstBr") => RI::AArch64(A::TstBr),
        ("aarch64", "Bcond") => RI::AArch64(A::Bcond),
        ("aarch64", "JumpCall") => RI::AArch64(A::JumpCall),
        ("riscv64", "UType") => RI::RiscV(R::UType),
        ("riscv64", "IType") => RI::RiscV(R::IType),
        ("riscv64", "SType") => RI::RiscV(R::SType),
        ("riscv64", "BType") => RI::RiscV(R::BType),
        ("riscv64", "JType") => RI::RiscV(R::JType),
        ("riscv64", "CbType") => RI::RiscV(R::CbType),
        ("riscv64", "CjType") => RI::RiscV(R::CjType),
        ("riscv64", "CluiType") => RI::RiscV(R::CluiType),
        ("riscv64", "UiType") => RI::RiscV(R::UiType),
        ("loongarch64", "Shift5") => RI::LoongArch64(L::Shift5),
        ("loongarch64", "Shift10") => RI::LoongArch64(L::Shift10),
        ("loongarch64", "Branch21") => RI::LoongArch64(L::Branch21),
        ("loongarch64", "Branch26") => RI::LoongArch64(L::Branch26),
        ("loongarch64", "Call36") => RI::LoongArch64(L::Call36),
        ("loongarch64", "Call30") => RI::LoongArch64(L::Call30),
        _ => return None,
    })
}

fn wild_kind_name(i: RI) -> String {
    match i {
        RI::AArch64(a) => format!("{a:?}"),
        RI::RiscV(a) => format!("{a:?}"),
        RI::LoongArch64(a) => format!("{a:?}"),
    }
}

const GUARD: usize = 16;

fn to_buf(word: u64, guard: u64) -> [u8; GUARD] {
    let mut b = [0u8; GUARD];
    b[..8].copy_from_slice(&word.to_le_bytes());
    b[8..].copy_from_slice(&guard.to_le_bytes());
    b
}


fn low_mask(bits: u32) -> u64 {
    if bits >= 64 { !0 } else { (1u64 << bits) - 1 }
}

fn nb_mask(nbytes: usize) -> u64 {
    low_mask(8 * nbytes as u32)
}

/// One observed write. `w0` holds the instruction in its low `nbytes` bytes; bytes above it (and the
/// 8 guard bytes) must stay untouched.
struct Obs {
    got: u64,
    beyond: bool,
}

fn do_write(write: &dyn Fn(&mut [u8]), w0: u64, nbytes: usize, guard: u64) -> Result<Obs, (String, String)> {
    // bytes of the u64 above nbytes carry a pattern too
    let fill = guard.rotate_left(17) & !nb_mask(nbytes);
    let mut b = to_buf((w0 & nb_mask(nbytes)) | fill, guard);
    out::guarded(|| write(&mut b))?;
    // self-validation only: corrupt what the oracle reads, as a wrong encoder would
    match out::mutant() {
        "insn_flip_bit7" => b[0] ^= 0x80,
        "insn_keep_low_field_bit" => {
            // an encoder that forgets to clear bit 12 (inside most immediate fields)
            b[1] |= (((w0 >> 12) & 1) as u8) << 4;
        }
        "insn_touch_next_byte" => b[nbytes] ^= 1,
        _ => {}
    }
    let after = u64::from_le_bytes(b[..8].try_into().unwrap());
    let g = u64::from_le_bytes(b[8..].try_into().unwrap());
    Ok(Obs { got: after & nb_mask(nbytes), beyond: g != guard || (after & !nb_mask(nbytes)) != fill })
}

#[derive(Default)]
struct Cnt {
    values: u64,
    writes: u64,
    readbacks: u64,
    mism: u64,
    prefill: [u64; 3],
}

/// Domain of extracted values wild is legitimately handed for a kind.
enum Dom {
    Bits(u32),
    /// sign-extended offsets of `bits` bits, multiples of 2^alog, truncated to `width` bits
    Off { bits: u32, alog: u32, width: u32 },
    /// 32-bit values X with -2^31 <= X < 2^31 - 0x800
    Rv32,
    /// RISC-V c.lui: %hi in [-32,31]\{0}
    Clui,
    /// LoongArch call36: (off>>2) mod 2^36 with -2^37 <= off < 2^37 - 0x20000
    Call36,
}

fn dom_of(k: &Kind) -> Dom {
    match (k.arch, k.name) {
        ("riscv64", "BType") => Dom::Off { bits: 13, alog: 1, width: 32 },
        ("riscv64", "JType") => Dom::Off { bits: 21, alog: 1, width: 32 },
        ("riscv64", "CbType") => Dom::Off { bits: 9, alog: 1, width: 16 },
        ("riscv64", "CjType") => Dom::Off { bits: 12, alog: 1, width: 16 },
        ("riscv64", "CluiType") => Dom::Clui,
        ("riscv64", _) => Dom::Rv32,
        ("loongarch64", "Call36") => Dom::Call36,
        _ => Dom::Bits(k.in_bits),
    }
}

impl Dom {
    fn size_log2(&self) -> u32 {
        match self {
            Dom::Bits(n) => *n,
            Dom::Off { bits, alog, .. } => bits - alog,
            Dom::Rv32 => 32,
            Dom::Clui => 18,
            Dom::Call36 => 36,
        }
    }

    fn nth(&self, i: u64) -> u64 {
        match self {
            Dom::Bits(_) => i,
            Dom::Off { bits, alog, width } => {
                let n = 1u64 << (bits - alog);
                let off = (i as i64 - (n / 2) as i64) << alog;
                (off as u64) & low_mask(*width)
            }
            _ => unreachable!(),
        }
    }

    fn random(&self, r: &mut Rng) -> u64 {
        match self {
            Dom::Bits(n) => {
                if r.below(2) == 0 { r.next() & low_mask(*n) } else { r.biased() & low_mask(*n) }
            }
            Dom::Off { .. } => {
                let n = 1u64 << self.size_log2();
                self.nth(r.below(n))
            }
            Dom::Rv32 => {
                let x = match r.below(3) {
                    0 => r.next() as u32 as i32 as i64,
                    1 => (r.biased() as u32) as i32 as i64,
                    _ => {
                        // around multiples of 0x800 where %hi rounding matters
                        let k = (r.below(1 << 21) as i64) - (1 << 20);
                        k * 0x800 + (r.below(5) as i64) - 2
                    }
                };
                let x = x.clamp(-(1i64 << 31), (1i64 << 31) - 0x800 - 1);
                (x as u64) & 0xffff_ffff
            }
            Dom::Clui => {
                let mut hi = r.below(64) as i64 - 32;
                if hi == 0 {
                    hi = 1;
                }
                let lo = r.below(4096) as i64 - 2048;
                (((hi << 12) + lo) as u64) & 0xffff_ffff
            }
            Dom::Call36 => {
                let lo = -(1i64 << 35);
                let hi = (1i64 << 35) - 0x8000;
                let x = match r.below(3) {
                    0 => lo + (r.next() % ((hi - lo) as u64)) as i64,
                    1 => {
                        let k = (r.below(1 << 20) as i64) - (1 << 19);
                        k * 0x8000 + (r.below(5) as i64) - 2
                    }
                    _ => (r.below(1 << 18) as i64) - (1 << 17),
                };
                (x.clamp(lo, hi - 1) as u64) & low_mask(36)
            }
        }
    }

    fn boundary(&self) -> Vec<u64> {
        let mut v = Vec::new();
        match self {
            Dom::Bits(n) => {
                let m = low_mask(*n);
                v.extend([0, 1, 2, m, m - 1, m >> 1, (m >> 1) + 1]);
                for b in 0..*n {
                    v.push(1u64 << b);
                    v.push(m & !(1u64 << b));
                    v.push((1u64 << b).wrapping_sub(1) & m);
                }
            }
            Dom::Off { .. } => {
                let n = 1u64 << self.size_log2();
                for i in [0, 1, 2, n / 2 - 2, n / 2 - 1, n / 2, n / 2 + 1, n / 2 + 2, n - 3, n - 2, n - 1] {
                    v.push(self.nth(i));
                }
                for b in 0..self.size_log2() {
                    v.push(self.nth(n / 2 + (1 << b)));
                    v.push(self.nth(n / 2 - (1 << b)));
                }
            }
            Dom::Rv32 => {
                for x in [0i64, 1, -1, 0x7ff, 0x800, 0x801, -0x800, -0x801, -0x7ff, 0xfff, 0x1000, 0x17ff, 0x1800,
                          -(1 << 31), -(1 << 31) + 0x7ff, -(1 << 31) + 0x800, (1 << 31) - 0x801, (1 << 31) - 0x1000,
                          0x7fff_f000 - 0x800, 0x1234_5678, -0x1234_5678] {
                    v.push((x as u64) & 0xffff_ffff);
                }
                for b in 0..31 {
                    v.push(1u64 << b);
                    v.push(((-(1i64 << b)) as u64) & 0xffff_ffff);
                }
            }
            Dom::Clui => {
                for hi in [-32i64, -31, -2, -1, 1, 2, 15, 16, 30, 31] {
                    for lo in [-2048i64, -2047, -1, 0, 1, 2046, 2047] {
                        v.push((((hi << 12) + lo) as u64) & 0xffff_ffff);
                    }
                }
            }
            Dom::Call36 => {
                let lo = -(1i64 << 35);
                let hi = (1i64 << 35) - 0x8000;
                for x in [0, 1, -1, 0x7fff, 0x8000, 0x8001, -0x7fff, -0x8000, -0x8001, 0xffff, 0x10000, lo, lo + 1,
                          lo + 0x7fff, lo + 0x8000, hi - 1, hi - 2, hi - 0x8000, 0x1_7fff, 0x1_8000, -0x1_8000] {
                    v.push((x as u64) & low_mask(36));
                }
                for b in 0..35 {
                    v.push(1u64 << b);
                    v.push(((-(1i64 << b)) as u64) & low_mask(36));
                }
            }
        }
        v.sort_unstable();
        v.dedup();
        v
    }
}

fn initial_word(k: &Kind, r: &mut Rng, idx: usize, fm: u64) -> (usize, u64, usize) {
    let ti = idx % k.templates.len();
    let t = &k.templates[ti];
    let mut w = t.base | (r.next() & t.free);
    // c.lui: rd = x0 / x2 are other instructions (c.nop-ish / c.addi16sp)
    if k.name == "CluiType" {
        let rd = (w >> 7) & 31;
        if rd == 0 || rd == 2 {
            w = (w & !(31 << 7)) | (5 << 7);
        }
    }
    let pf = (idx / k.templates.len()) % 3;
    let fill = match pf {
        0 => 0,
        1 => fm,
        _ => r.next() & fm,
    };
    ((ti), (w & !fm) | fill, pf)
}

struct Case<'a> {
    arch: &'a str,
    /// label used in signatures for field-content errors
    label: &'a str,
    /// label used for previous-content dependence
    dep_label: &'a str,
    k: &'a Kind,
    tname: &'a str,
    w0: u64,
    ev_desc: String,
}

/// Judges one write. Returns true when everything matched.
fn judge(c: &Case, write: &dyn Fn(&mut [u8]), fv: u64, guard: u64, cnt: &mut Cnt) -> Option<u64> {
    let k = c.k;
    let fm = k.field_mask();
    let exp = (c.w0 & !fm & nb_mask(k.nbytes)) | k.place(fv);
    cnt.writes += 2;
    let sample = |got: Option<u64>| {
        format!(
            "\"arch\":\"{}\",\"what\":\"{}\",\"template\":\"{}\",\"word_before\":\"0x{:x}\",{},\"got\":\"{}\",\"want\":\"0x{:x}\",\"field_mask\":\"0x{:x}\"",
            c.arch,
            c.label,
            c.tname,
            c.w0,
            c.ev_desc,
            got.map(|g| format!("0x{g:x}")).unwrap_or_else(|| "-".into()),
            exp,
            fm
        )
    };
    let report = |what: &str, label: &str, got: Option<u64>, extra: String, cnt: &mut Cnt| {
        cnt.mism += 1;
        out::mismatch(&format!("{}:{}:{}", c.arch, label, what), || format!("{}{}", sample(got), extra));
    };
    let nbm = nb_mask(k.nbytes);
    // 1. the write into the same word with the field pre-cleared: content and locality
    let wz = c.w0 & !fm & nbm;
    let gz = match do_write(write, wz, k.nbytes, guard) {
        Ok(o) => o,
        Err((loc, msg)) => {
            report(&format!("panic@{}", out::panic_site(&loc)), c.label, None, format!(",\"panic\":\"{}\"", out::esc(&msg)), cnt);
            return None;
        }
    };
    if gz.beyond {
        report("writes-beyond-instruction", c.dep_label, Some(gz.got), String::new(), cnt);
        return None;
    }
    if k.decode_checked && gz.got != exp {
        let dec = k.gather(gz.got);
        let extra = format!(",\"word_with_cleared_field\":\"0x{wz:x}\",\"decoded_field\":\"0x{dec:x}\",\"expected_field\":\"0x{:x}\"", fv & k.fv_mask());
        if (gz.got & fm) == (exp & fm) {
            report("changes-bits-outside-field", c.dep_label, Some(gz.got), extra, cnt);
        } else {
            report("wrong-field-content", c.label, Some(gz.got), extra, cnt);
        }
        return None;
    }
    if (gz.got ^ wz) & !fm & nbm != 0 {
        report("changes-bits-outside-field", c.dep_label, Some(gz.got), String::new(), cnt);
        return None;
    }
    // 2. the write into the word as given (field pre-filled)
    let o = match do_write(write, c.w0, k.nbytes, guard) {
        Ok(o) => o,
        Err((loc, msg)) => {
            report(&format!("panic@{}", out::panic_site(&loc)), c.label, None, format!(",\"panic\":\"{}\"", out::esc(&msg)), cnt);
            return None;
        }
    };
    if o.beyond {
        report("writes-beyond-instruction", c.dep_label, Some(o.got), String::new(), cnt);
        return None;
    }
    if (o.got ^ c.w0) & !fm & nbm != 0 {
        report("changes-bits-outside-field", c.dep_label, Some(o.got), String::new(), cnt);
        return None;
    }
    // the union mask of a locality-only kind may be wider than the real field: preserving bits
    // there is not a defect, so independence is judged only where the field is known exactly
    if k.decode_checked && (gz.got & fm) != (o.got & fm) {
        report("depends-on-previous-field", c.dep_label, Some(o.got), format!(",\"got_with_cleared_field\":\"0x{:x}\"", gz.got), cnt);
        return None;
    }
    Some(o.got)
}

fn direct_kind(k: &Kind, seed: u64, n_random: u64, n_words: usize, exh_bits: u32) {
    let Some(insn) = wild_insn(k) else { return };
    let dom = dom_of(k);
    let fm = k.field_mask();
    let mut r = Rng::new(seed, 0xC13 ^ (k.name.len() as u64) << 8 ^ k.name.bytes().fold(0u64, |a, b| a.wrapping_mul(131) + b as u64));
    let mut cnt = Cnt::default();
    let exhaustive = dom.size_log2() <= exh_bits && matches!(dom, Dom::Bits(_) | Dom::Off { .. });
    let negs: &[bool] = if k.pre == Pre::MovNZ { &[false, true] } else { &[false] };
    let label = k.name;

    let run_value = |ev: u64, words: usize, r: &mut Rng, cnt: &mut Cnt| {
        for &neg in negs {
            cnt.values += 1;
            let fv = k.field_value(ev, neg);
            for wi in 0..words {
                let (ti, w0, pf) = initial_word(k, r, wi + (ev as usize % 7) * 3, fm);
                cnt.prefill[pf] += 1;
                let guard = r.next();
                let c = Case {
                    arch: k.arch,
                    label,
                    dep_label: label,
                    k,
                    tname: k.templates[ti].name,
                    w0,
                    ev_desc: format!("\"extracted_value\":\"0x{ev:x}\",\"negative\":{neg}"),
                };
                let write = |b: &mut [u8]| insn.write_to_value(ev, neg, b);
                let Some(got) = judge(&c, &write, fv, guard, cnt) else {
                    cnt.mism += 0;
                    continue;
                };
                // (d) wild's own decoder is the inverse on the field: write(read(word)) == word
                if pf == 0 && k.decode_checked {
                    cnt.readbacks += 1;
                    let b = to_buf(got, guard);
                    match out::guarded(|| insn.read_value(&b)) {
                        Ok((rv, rneg)) => {
                            let rv = rv & low_mask(k.in_bits);
                            let w2 = |b: &mut [u8]| insn.write_to_value(rv, rneg, b);
                            if let Ok(o2) = do_write(&w2, w0 & !fm, k.nbytes, guard)
                                && (o2.got & fm) != (got & fm)
                            {
                                out::mismatch(&format!("{}:{}:read_value-not-inverse", k.arch, label), || {
                                    format!(
                                        "\"arch\":\"{}\",\"kind\":\"{}\",\"word\":\"0x{got:x}\",\"written_value\":\"0x{ev:x}\",\"negative\":{neg},\"read_value\":\"0x{rv:x}\",\"read_negative\":{rneg},\"rewritten_word\":\"0x{:x}\"",
                                        k.arch, label, o2.got
                                    )
                                });
                            }
                        }
                        Err((loc, msg)) => {
                            out::mismatch(&format!("{}:{}:read_value-panic@{}", k.arch, label, out::panic_site(&loc)), || {
                                format!("\"word\":\"0x{got:x}\",\"panic\":\"{}\"", out::esc(&msg))
                            });
                        }
                    }
                }
            }
        }
    };

    if exhaustive {
        for i in 0..(1u64 << dom.size_log2()) {
            run_value(dom.nth(i), n_words, &mut r, &mut cnt);
        }
    } else {
        for ev in dom.boundary() {
            run_value(ev, n_words, &mut r, &mut cnt);
        }
        let words = (n_words / 4).max(3);
        for _ in 0..n_random {
            let ev = dom.random(&mut r);
            run_value(ev, words, &mut r, &mut cnt);
        }
    }
    out::count(
        &format!("direct/{}/{}", k.arch, k.name),
        &format!(
            "\"values\":{},\"writes\":{},\"readbacks\":{},\"exhaustive\":{},\"domain_log2\":{},\"templates\":{},\"prefill_zero\":{},\"prefill_ones\":{},\"prefill_random\":{},\"decode_checked\":{},\"mismatching_writes\":{}",
            cnt.values, cnt.writes, cnt.readbacks, exhaustive, dom.size_log2(), k.templates.len(),
            cnt.prefill[0], cnt.prefill[1], cnt.prefill[2], k.decode_checked, cnt.mism
        ),
    );
}

pub fn wild_rel_info(arch: &str, r_type: u32) -> Option<RelocationKindInfo> {
    match arch {
        "x86_64" => linker_utils::x86_64::relocation_from_raw(r_type),
        "aarch64" => linker_utils::aarch64::relocation_type_from_raw(r_type),
        "riscv64" => linker_utils::riscv64::relocation_type_from_raw(r_type),
        "loongarch64" => linker_utils::loongarch64::relocation_type_from_raw(r_type),
        _ => None,
    }
}

fn rel_values(rel: &InsnRel, r: &mut Rng, n_random: u64) -> Vec<i64> {
    let lo = rel.lo.max(-(1i128 << 63));
    let hi = rel.hi.min(1i128 << 63); // exclusive
    let al = rel.align as i128;
    let mut v: Vec<i128> = Vec::new();
    let first = ((lo + al - 1).div_euclid(al)) * al;
    let last = ((hi - 1).div_euclid(al)) * al;
    for x in [first, first + al, first + 2 * al, last, last - al, last - 2 * al, 0, al, -al, 2 * al, -2 * al] {
        v.push(x);
    }
    for b in 0..63 {
        for d in [-al, 0, al] {
            v.push(((1i128 << b).div_euclid(al)) * al + d);
            v.push((-(1i128 << b)).div_euclid(al) * al + d);
        }
    }
    let span = (last - first) / al + 1;
    for _ in 0..n_random {
        let x = match r.below(3) {
            0 => first + ((r.next() as u128 % span as u128) as i128) * al,
            1 => ((r.biased() as i64 as i128).div_euclid(al)) * al,
            _ => {
                // values whose field is all-ones / all-zeros / alternating
                let f = [0u64, !0, 0x5555_5555_5555_5555, 0xaaaa_aaaa_aaaa_aaaa][r.below(4) as usize] & low_mask(rel.bits);
                let base = (r.next() as i64 as i128) & !(((low_mask(rel.bits) as i128) << rel.shift) | ((1i128 << rel.shift) - 1));
                ((base | ((f as i128) << rel.shift)).div_euclid(al)) * al
            }
        };
        v.push(x);
    }
    let mut o: Vec<i64> = v.into_iter().filter(|x| *x >= lo && *x < hi && x.rem_euclid(al) == 0).map(|x| x as i64).collect();
    o.sort_unstable();
    o.dedup();
    o
}

fn reloc_path(rel: &InsnRel, seed: u64, n_random: u64, n_words: usize) {
    let k = spec::kind(rel.arch, rel.kind);
    let fm = k.field_mask();
    let Some(info) = wild_rel_info(rel.arch, rel.r_type) else {
        out::count(&format!("reloc/{}/{}", rel.arch, rel.name), "\"unsupported_by_wild\":true,\"writes\":0");
        return;
    };
    let wild_kind = match info.size {
        RelocationSize::BitMasking(bm) => wild_kind_name(bm.instruction),
        RelocationSize::ByteSize(n) => format!("ByteSize{n}"),
    };
    // previous-content dependence is a property of wild's encoder when its field is the format's field
    let same_field = KINDS
        .iter()
        .find(|x| x.arch == rel.arch && x.name == wild_kind)
        .map(|x| x.field_mask() == fm)
        .unwrap_or(false);
    let dep_label = if same_field { wild_kind.clone() } else { rel.name.to_string() };
    let mut r = Rng::new(seed, 0xC13_0000 + rel.r_type as u64 + (rel.arch.len() as u64) * 7919);
    let mut cnt = Cnt::default();
    let mut rejected = 0u64;
    let words = (n_words / 4).max(3);
    for x in rel_values(rel, &mut r, n_random) {
        cnt.values += 1;
        let ev = ((x as u64) >> rel.shift) & low_mask(rel.bits);
        let fv = k.field_value(ev, x < 0);
        for wi in 0..words {
            let (ti, w0, pf) = initial_word(k, &mut r, wi + (x as usize % 5) * 3, fm);
            cnt.prefill[pf] += 1;
            // is the value accepted at all? (rejections are C12's subject, only counted here)
            let mut probe = to_buf(w0, 0);
            match out::guarded(|| info.write_to_buffer(x as u64, &mut probe)) {
                Ok(Ok(())) => {}
                Ok(Err(_)) => {
                    rejected += 1;
                    break;
                }
                Err(_) => {}
            }
            let guard = r.next();
            let c = Case {
                arch: rel.arch,
                label: rel.name,
                dep_label: &dep_label,
                k,
                tname: k.templates[ti].name,
                w0,
                ev_desc: format!("\"value\":\"{x}\",\"wild_encoder\":\"{wild_kind}\",\"format\":\"{}\"", rel.kind),
            };
            let write = |b: &mut [u8]| {
                let _ = info.write_to_buffer(x as u64, b);
            };
            judge(&c, &write, fv, guard, &mut cnt);
        }
    }
    out::count(
        &format!("reloc/{}/{}", rel.arch, rel.name),
        &format!(
            "\"values\":{},\"writes\":{},\"rejected_in_range_values\":{},\"wild_encoder\":\"{}\",\"format\":\"{}\",\"mismatching_writes\":{}",
            cnt.values, cnt.writes, rejected, wild_kind, rel.kind, cnt.mism
        ),
    );
}

pub fn run(seed: u64, n_random: u64, n_words: usize) {
    let exh_bits = std::env::var("UNITS_EXH_BITS").ok().and_then(|s| s.parse().ok()).unwrap_or(16);
    for k in KINDS {
        direct_kind(k, seed, n_random, n_words, exh_bits);
    }
    for rel in INSN_RELS {
        reloc_path(rel, seed, (n_random / 20).max(200), n_words);
    }
}

/// Prints reference encodings with assembly text, for calibration against llvm-mc.
pub fn calib(seed: u64, n: usize) {
    let mut r = Rng::new(seed, 0xCA11B);
    for k in KINDS {
        let dom = dom_of(k);
        let fm = k.field_mask();
        for (ti, t) in k.templates.iter().enumerate() {
            let Some(asm) = t.asm else { continue };
            let mut vals = dom.boundary();
            // a spread of boundary values plus random ones
            let step = (vals.len() / n.max(1)).max(1);
            vals = vals.into_iter().step_by(step).take(n).collect();
            for _ in 0..n {
                vals.push(dom.random(&mut r));
            }
            for ev in vals {
                let negs: &[bool] = if k.pre == Pre::MovNZ { &[false, true] } else { &[false] };
                for &neg in negs {
                    let fv = k.field_value(ev, neg);
                    if k.name == "CluiType" && fv & 0x3f == 0 {
                        continue;
                    }
                    let mut w = t.base | (r.next() & t.free);
                    if k.name == "CluiType" {
                        let rd = (w >> 7) & 31;
                        if rd == 0 || rd == 2 {
                            w = (w & !(31 << 7)) | (6 << 7);
                        }
                    }
                    let word = (w & !fm) | k.place(fv);
                    let text = asm(word, fv);
                    out::record(
                        "calib",
                        &format!(
                            "\"arch\":\"{}\",\"kind\":\"{}\",\"template\":\"{}\",\"ti\":{ti},\"asm\":\"{}\",\"nbytes\":{},\"word\":\"0x{:x}\"",
                            k.arch,
                            k.name,
                            t.name,
                            out::esc(&text),
                            k.nbytes,
                            word
                        ),
                    );
                }
            }
        }
    }
}

/// `units roundtrip <arch> <Kind> <value> [word]`: write_to_value, read_value, write_to_value again
/// (by-hand reproducer for the encoder findings).
pub fn roundtrip(arch: &str, kind: &str, value: u64, word: u64) {
    let Some(k) = KINDS.iter().find(|k| k.arch == arch && k.name == kind) else {
        println!("unknown kind {arch}/{kind}");
        return;
    };
    let Some(insn) = wild_insn(k) else {
        println!("{arch}/{kind} has no wild encoder");
        return;
    };
    let fm = k.field_mask();
    let mut b = to_buf(word, 0);
    insn.write_to_value(value, false, &mut b);
    let w1 = u64::from_le_bytes(b[..8].try_into().unwrap());
    let (rv, neg) = insn.read_value(&b);
    let mut b2 = to_buf(word & !fm, 0);
    insn.write_to_value(rv & low_mask(k.in_bits), neg, &mut b2);
    let w2 = u64::from_le_bytes(b2[..8].try_into().unwrap());
    let want = (word & !fm) | k.place(k.field_value(value, false));
    println!(
        "{arch}/{kind} field_mask=0x{fm:x} word_before=0x{word:x} value=0x{value:x}: write -> 0x{w1:x} (independent table: 0x{want:x}); read_value -> (0x{rv:x}, negative={neg}); written back into a cleared field -> 0x{w2:x}"
    );
}
