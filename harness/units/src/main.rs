//! In-process verification harness for wild's pure arithmetic / encoding code.
//!
//! usage: units <subcommand> <seed> <size> [extra]
//!   align  <seed> <n_random>            C29  alignment arithmetic vs u128 reference
//!   insn   <seed> <n_random> <n_words>  C13  instruction immediate encoders vs independent tables
//!   calib  <seed> <n_per_template>      C13  prints (asm, reference encoding) for llvm-mc calibration
//!   range  <seed> <n_random>            C12  relocation range tables vs independent psABI table
//!   table                                 C12  prints the independent range table (JSON lines)
//!   probe  <arch> <r_type> <value_hex> <word_hex>   single write_to_buffer call (by-hand reproducer)
//!   roundtrip <arch> <Kind> <value> [word]          write_to_value / read_value / write again
//!
//! Output: JSON lines on stdout. {"t":"count",...} per sub-space, {"t":"mismatch",...} per
//! mismatch class (count + up to 3 samples). Panics inside wild code are caught per case.

mod align;
mod insn;
mod out;
mod range;
mod rng;
mod spec;

use std::panic;

fn main() {
    // Panics in wild code are caught per case and reported as records; keep stderr quiet.
    panic::set_hook(Box::new(|info| {
        out::LAST_PANIC.with(|p| {
            let loc = info
                .location()
                .map(|l| format!("{}:{}", l.file(), l.line()))
                .unwrap_or_default();
            let msg = if let Some(s) = info.payload().downcast_ref::<&str>() {
                (*s).to_string()
            } else if let Some(s) = info.payload().downcast_ref::<String>() {
                s.clone()
            } else {
                String::from("?")
            };
            *p.borrow_mut() = Some((loc, msg));
        });
    }));
    let args: Vec<String> = std::env::args().collect();
    if args.len() < 2 {
        eprintln!("usage: units <align|insn|calib|range|probe> <seed> <size> ...");
        std::process::exit(2);
    }
    let num = |i: usize, d: u64| -> u64 {
        args.get(i)
            .map(|s| {
                if let Some(h) = s.strip_prefix("0x") {
                    u64::from_str_radix(h, 16).expect("hex")
                } else if let Some(n) = s.strip_prefix('-') {
                    (n.parse::<u64>().expect("number")).wrapping_neg()
                } else {
                    s.parse::<u64>().expect("number")
                }
            })
            .unwrap_or(d)
    };
    match args[1].as_str() {
        "align" => align::run(num(2, 0), num(3, 1_000_000)),
        "insn" => insn::run(num(2, 0), num(3, 100_000), num(4, 16) as usize),
        "calib" => insn::calib(num(2, 0), num(3, 8) as usize),
        "range" => range::run(num(2, 0), num(3, 10_000)),
        "table" => range::table(),
        "roundtrip" => {
            let arch = args.get(2).map(String::as_str).unwrap_or("");
            let kind = args.get(3).map(String::as_str).unwrap_or("");
            insn::roundtrip(arch, kind, num(4, 0), num(5, 0));
        }
        "probe" => {
            let arch = args.get(2).map(String::as_str).unwrap_or("");
            range::probe(arch, num(3, 0) as u32, num(4, 0), num(5, 0));
        }
        other => {
            eprintln!("unknown subcommand {other}");
            std::process::exit(2);
        }
    }
    out::flush();
}
