//! splitmix64: small, deterministic, good enough for case generation.
pub struct Rng(u64);

impl Rng {
    pub fn new(seed: u64, stream: u64) -> Rng {
        let mut r = Rng(seed ^ stream.wrapping_mul(0x9E37_79B9_7F4A_7C15) ^ 0xD1B5_4A32_D192_ED03);
        r.next();
        r.next();
        r
    }

    pub fn next(&mut self) -> u64 {
        self.0 = self.0.wrapping_add(0x9E37_79B9_7F4A_7C15);
        let mut z = self.0;
        z = (z ^ (z >> 30)).wrapping_mul(0xBF58_476D_1CE4_E5B9);
        z = (z ^ (z >> 27)).wrapping_mul(0x94D0_49BB_1331_11EB);
        z ^ (z >> 31)
    }

    pub fn below(&mut self, n: u64) -> u64 {
        if n == 0 { 0 } else { self.next() % n }
    }

    /// Bit-pattern-biased 64-bit value: runs of ones/zeros, sparse bits, near powers of two.
    pub fn biased(&mut self) -> u64 {
        match self.below(8) {
            0 => self.next(),
            1 => {
                // low k bits random
                let k = self.below(65) as u32;
                if k == 0 { 0 } else { self.next() >> (64 - k) }
            }
            2 => {
                // high ones then random
                let k = self.below(64) as u32;
                (!0u64 << k) | (self.next() & ((1u64 << k) - 1))
            }
            3 => {
                // 2^k + small delta
                let k = self.below(64) as u32;
                (1u64 << k).wrapping_add(self.below(9)).wrapping_sub(4)
            }
            4 => {
                // sparse
                let mut v = 0u64;
                for _ in 0..self.below(4) + 1 {
                    v |= 1u64 << self.below(64);
                }
                v
            }
            5 => {
                // dense
                let mut v = !0u64;
                for _ in 0..self.below(4) + 1 {
                    v &= !(1u64 << self.below(64));
                }
                v
            }
            6 => {
                // multiple of a power of two +- 1
                let k = self.below(17) as u32;
                let m = self.next() & !((1u64 << k) - 1);
                m.wrapping_add(self.below(3)).wrapping_sub(1)
            }
            _ => {
                // close to the top
                (!0u64).wrapping_sub(self.below(1 << 18))
            }
        }
    }
}
