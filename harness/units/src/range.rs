//! C12 (in-process layer): wild's per-relocation range tables + write_to_buffer against the
//! independent table in `spec::RANGE_RELS`.
use crate::insn::wild_rel_info;
use crate::out;
use crate::rng::Rng;
use crate::spec::{self, RangeRel, INSN_RELS, RANGE_RELS};

fn fmt_num(x: i128) -> String {
    if x.abs() < 100_000 {
        return format!("{x}");
    }
    for k in 8..=64u32 {
        for d in -2i128..=2 {
            let p = 1i128 << k;
            if x == p + d {
                return if d == 0 { format!("2^{k}") } else { format!("2^{k}{d:+}") };
            }
            if x == -p + d {
                return if d == 0 { format!("-2^{k}") } else { format!("-2^{k}{d:+}") };
            }
        }
    }
    format!("{x}")
}

fn breakpoints(rel: &RangeRel) -> Vec<i128> {
    let mut b = vec![rel.rej_lo, rel.acc_lo, 0, rel.acc_hi, rel.rej_hi];
    // the signed maximum + 1 of the field splits the "unsigned-only" upper half off
    let bits: u32 = if rel.nbytes > 0 {
        8 * rel.nbytes as u32
    } else {
        // instruction fields: acc_hi is 2^(n-1) (signed) or 2^n (unsigned)
        let mut n = 0;
        while (1i128 << n) < rel.acc_hi {
            n += 1;
        }
        if rel.acc_lo < 0 { n + 1 } else { n }
    };
    if bits < 64 {
        b.push(1i128 << (bits - 1));
    } else {
        b.push((1i128 << 63) - 1); // i64::MAX as its own class
    }
    b.retain(|x| *x > -(1i128 << 63) && *x < (1i128 << 63));
    b.sort_unstable();
    b.dedup();
    b
}

fn class_of(bps: &[i128], x: i128) -> String {
    let mut lo: Option<i128> = None;
    let mut hi: Option<i128> = None;
    for &b in bps {
        if b <= x {
            lo = Some(b);
        } else if hi.is_none() {
            hi = Some(b);
        }
    }
    match (lo, hi) {
        (None, Some(h)) => format!("<{}", fmt_num(h)),
        (Some(l), None) => {
            if l == (1i128 << 63) - 1 { fmt_num(l) } else { format!(">={}", fmt_num(l)) }
        }
        (Some(l), Some(h)) => {
            if l == h - 1 { fmt_num(l) } else { format!("{}..{}", fmt_num(l), fmt_num(h - 1)) }
        }
        (None, None) => "any".into(),
    }
}

fn values(rel: &RangeRel, r: &mut Rng, n_random: u64) -> Vec<i64> {
    let mut v: Vec<i128> = Vec::new();
    let al = rel.align as i128;
    for b in breakpoints(rel) {
        for d in -3i128..=3 {
            v.push(b + d * al);
            v.push(b + d);
        }
    }
    for k in 0..=63u32 {
        for d in [-al, -1, 0, 1, al] {
            v.push((1i128 << k) + d);
            v.push(-(1i128 << k) + d);
        }
    }
    v.extend([i64::MIN as i128, i64::MIN as i128 + 1, i64::MAX as i128, i64::MAX as i128 - 1]);
    let width = (rel.rej_hi - rel.rej_lo).min(1i128 << 64);
    for _ in 0..n_random {
        let x = match r.below(4) {
            0 => r.next() as i64 as i128,
            1 => r.biased() as i64 as i128,
            2 => {
                // inside / around the accepted window
                let w = width.max(2) as u128;
                rel.rej_lo.max(-(1i128 << 63)) + ((r.next() as u128 * 3) % (w * 2)) as i128 - (w / 2) as i128
            }
            _ => {
                let bps = breakpoints(rel);
                bps[r.below(bps.len() as u64) as usize] + (r.below(4097) as i128 - 2048)
            }
        };
        v.push(x);
    }
    let mut o: Vec<i64> = v
        .into_iter()
        .filter(|x| *x >= i64::MIN as i128 && *x <= i64::MAX as i128)
        .map(|x| x as i64)
        .collect();
    o.sort_unstable();
    o.dedup();
    o
}

pub fn run(seed: u64, n_random: u64) {
    for rel in RANGE_RELS {
        let space = format!("range/{}/{}", rel.arch, rel.name);
        let Some(info) = wild_rel_info(rel.arch, rel.r_type) else {
            out::count(&space, "\"unsupported_by_wild\":true,\"probes\":0");
            continue;
        };
        let bps = breakpoints(rel);
        let insn_rel = INSN_RELS.iter().find(|i| i.arch == rel.arch && i.r_type == rel.r_type);
        let mut r = Rng::new(seed, 0xC12_0000 + rel.r_type as u64 + rel.arch.len() as u64 * 104_729);
        let (mut probes, mut must_acc, mut must_rej, mut silent, mut misaligned) = (0u64, 0u64, 0u64, 0u64, 0u64);
        let mut classes: Vec<String> = Vec::new();
        for x in values(rel, &mut r, n_random) {
            let xi = x as i128;
            if rel.align > 1 && xi.rem_euclid(rel.align as i128) != 0 {
                misaligned += 1;
                continue;
            }
            probes += 1;
            let in_acc = xi >= rel.acc_lo && xi < rel.acc_hi;
            let in_rej = xi < rel.rej_lo || xi >= rel.rej_hi;
            let cls = class_of(&bps, xi);
            if !classes.contains(&cls) {
                classes.push(cls.clone());
            }
            // initial bytes: for instruction fields a real opcode with a zero field, else a pattern
            let (w0, fm, nbytes) = match insn_rel {
                Some(ir) => {
                    let k = spec::kind(ir.arch, ir.kind);
                    let t = &k.templates[0];
                    ((t.base | (r.next() & t.free)) & !k.field_mask(), k.field_mask(), k.nbytes)
                }
                None => (r.next(), 0, rel.nbytes),
            };
            let mut buf = [0u8; 16];
            buf[..8].copy_from_slice(&w0.to_le_bytes());
            let guard = r.next();
            buf[8..].copy_from_slice(&guard.to_le_bytes());
            let before = buf;
            let mut res = out::guarded(|| info.write_to_buffer(x as u64, &mut buf).map_err(|e| e.to_string()));
            // self-validation only: pretend the range table were wider / narrower / truncating
            match out::mutant() {
                "range_pc32_unsigned" if rel.name == "R_X86_64_PC32" && (1i128 << 31..1i128 << 32).contains(&xi) => {
                    buf[..4].copy_from_slice(&(x as u32).to_le_bytes());
                    res = Ok(Ok(()));
                }
                "range_32s_rejects_negative" if rel.name == "R_X86_64_32S" && xi < 0 => {
                    res = Ok(Err("mutant".into()));
                }
                "range_abs32_truncates" if rel.name == "R_AARCH64_ABS32" && res == Ok(Ok(())) => {
                    buf[3] = 0;
                }
                _ => {}
            }
            let sample = |what: &str, extra: String| {
                format!(
                    "\"arch\":\"{}\",\"reloc\":\"{}\",\"r_type\":{},\"value\":\"{x}\",\"value_hex\":\"0x{:x}\",\"what\":\"{what}\"{extra}",
                    rel.arch, rel.name, rel.r_type, x as u64
                )
            };
            match res {
                Err((loc, msg)) => {
                    out::mismatch(&format!("reloc={}:value-class={cls}:panic@{}", rel.name, out::panic_site(&loc)), || {
                        sample("panic", format!(",\"panic\":\"{}\"", out::esc(&msg)))
                    });
                }
                Ok(Err(e)) => {
                    if in_acc {
                        must_acc += 1;
                        out::mismatch(&format!("reloc={}:value-class={cls}:rejected", rel.name), || {
                            sample("rejected a value that fits", format!(",\"error\":\"{}\"", out::esc(&e)))
                        });
                    } else if in_rej {
                        must_rej += 1;
                    } else {
                        silent += 1;
                    }
                }
                Ok(Ok(())) => {
                    if in_rej {
                        must_rej += 1;
                        out::mismatch(&format!("reloc={}:value-class={cls}:accepted", rel.name), || {
                            let after = u64::from_le_bytes(buf[..8].try_into().unwrap());
                            sample("accepted a value that does not fit (truncated)", format!(",\"bytes_after\":\"0x{after:x}\""))
                        });
                        continue;
                    }
                    if !in_acc {
                        silent += 1;
                        continue;
                    }
                    must_acc += 1;
                    if insn_rel.is_some() || rel.insn {
                        // how the value is encoded into the instruction is C13's subject
                        continue;
                    }
                    // written bytes
                    let after = u64::from_le_bytes(buf[..8].try_into().unwrap());
                    let want = match insn_rel {
                        Some(ir) => {
                            let k = spec::kind(ir.arch, ir.kind);
                            let ev = ((x as u64) >> ir.shift) & if ir.bits >= 64 { !0 } else { (1u64 << ir.bits) - 1 };
                            w0 | k.place(k.field_value(ev, x < 0))
                        }
                        None => {
                            let m = if nbytes >= 8 { !0u64 } else { (1u64 << (8 * nbytes)) - 1 };
                            (w0 & !m) | ((x as u64) & m)
                        }
                    };
                    let _ = fm;
                    if after != want || buf[8..] != before[8..] {
                        out::mismatch(&format!("reloc={}:value-class={cls}:wrong-bytes", rel.name), || {
                            sample("accepted but the written bytes differ from the value", format!(",\"before\":\"0x{w0:x}\",\"after\":\"0x{after:x}\",\"want\":\"0x{want:x}\",\"field_bytes\":{nbytes}"))
                        });
                    }
                }
            }
        }
        out::count(
            &space,
            &format!(
                "\"probes\":{probes},\"must_accept\":{must_acc},\"must_reject\":{must_rej},\"silent_excluded\":{silent},\"misaligned_excluded\":{misaligned},\"classes\":[{}]",
                classes.iter().map(|c| format!("\"{c}\"")).collect::<Vec<_>>().join(",")
            ),
        );
    }
}

/// `units table`: the independent range table with its value-class breakpoints, as JSON lines.
pub fn table() {
    for rel in RANGE_RELS {
        let bps: Vec<String> = breakpoints(rel).iter().map(|b| format!("\"{b}\"")).collect();
        out::record(
            "range",
            &format!(
                "\"arch\":\"{}\",\"r_type\":{},\"name\":\"{}\",\"nbytes\":{},\"acc_lo\":\"{}\",\"acc_hi\":\"{}\",\"rej_lo\":\"{}\",\"rej_hi\":\"{}\",\"align\":{},\"insn\":{},\"breakpoints\":[{}],\"wild_supports\":{}",
                rel.arch, rel.r_type, rel.name, rel.nbytes, rel.acc_lo, rel.acc_hi, rel.rej_lo, rel.rej_hi, rel.align, rel.insn,
                bps.join(","), wild_rel_info(rel.arch, rel.r_type).is_some()
            ),
        );
    }
}

/// `units classify <arch> <r_type> <value>...` is not needed: classes are recomputed by the driver
/// from the breakpoints with the same rule as `class_of`.

/// `units probe <arch> <r_type> <value> <word>`: one write_to_buffer call, for by-hand reproduction.
pub fn probe(arch: &str, r_type: u32, value: u64, word: u64) {
    let Some(info) = wild_rel_info(arch, r_type) else {
        println!("relocation type {r_type} not known to wild for {arch}");
        return;
    };
    let mut buf = [0u8; 16];
    buf[..8].copy_from_slice(&word.to_le_bytes());
    let res = out::guarded(|| info.write_to_buffer(value, &mut buf).map_err(|e| e.to_string()));
    let after = u64::from_le_bytes(buf[..8].try_into().unwrap());
    println!(
        "arch={arch} r_type={r_type} size={} range=[{}, {}) align={} value=0x{value:x} ({}) word_before=0x{word:x} -> {:?} word_after=0x{after:x}",
        info.size, info.range.min, info.range.max, info.alignment, value as i64, res
    );
}
