//! C29: libwild::alignment against 128-bit reference arithmetic (division/modulo only, no masks).
use crate::out;
use crate::rng::Rng;
use libwild::verif_api as real;

/// Calls into wild. With UNITS_MUTANT set, a deliberately wrong implementation is substituted so
/// that the drivers can show the oracle is able to fire (self-validation; never used for verdicts).
mod w {
    use super::real;
    use crate::out::mutant;
    pub fn align_up(e: u8, v: u64) -> u64 {
        if mutant() == "align_up_plus_one" && v & ((1u64 << e) - 1) == 0 && e > 0 {
            return v.wrapping_add(1u64 << e);
        }
        real::align_up(e, v)
    }
    pub fn align_down(e: u8, v: u64) -> u64 {
        if mutant() == "align_down_value_mask" {
            return v & !(1u64 << e); // masks with value() instead of mask()
        }
        real::align_down(e, v)
    }
    pub fn align_modulo(e: u8, r: u64, v: u64) -> u64 {
        if mutant() == "align_modulo_no_wrap" {
            let a = 1u64 << e;
            let u = real::align_up(e, v);
            return u.wrapping_add((r & (a - 1)).wrapping_add(a).wrapping_sub(u & (a - 1))); // forgets "-= a"
        }
        real::align_modulo(e, r, v)
    }
    pub fn alignment_new(raw: u64) -> Option<u8> {
        if mutant() == "alignment_new_accepts_2_17" && raw == 1 << 17 {
            return Some(17);
        }
        real::alignment_new(raw)
    }
}

const MAXV: u128 = u64::MAX as u128;

fn ref_up(e: u8, v: u64) -> Option<u64> {
    let a = 1u128 << e;
    let r = ((v as u128 + a - 1) / a) * a;
    if r > MAXV { None } else { Some(r as u64) }
}

fn ref_down(e: u8, v: u64) -> u64 {
    let a = 1u128 << e;
    ((v as u128 / a) * a) as u64
}

/// least x >= up(v) with x == r (mod a)
fn ref_modulo(e: u8, r: u64, v: u64) -> Option<u64> {
    let a = 1u128 << e;
    let u = ((v as u128 + a - 1) / a) * a;
    let want = r as u128 % a;
    let mut x = u;
    // u is a multiple of a, so the answer is u + want; computed by search-free arithmetic but
    // written through the definition to stay independent of the implementation's formula.
    let cur = x % a;
    x += (want + a - cur) % a;
    if x > MAXV { None } else { Some(x as u64) }
}

fn ref_new(raw: u64) -> Option<u8> {
    for k in 0..=16u8 {
        if raw as u128 == 1u128 << k {
            return Some(k);
        }
    }
    None
}

fn top_class(v: u64) -> &'static str {
    if v > u64::MAX - (1 << 17) { ":near-top" } else { "" }
}

#[derive(Default)]
struct Cnt {
    checked: u64,
    excluded: u64,
    changed: u64,
    panics: u64,
}

impl Cnt {
    fn emit(&self, space: &str, func: &str) {
        out::count(
            space,
            &format!(
                "\"fn\":\"{func}\",\"checked\":{},\"excluded_unrepresentable\":{},\"changed\":{},\"panics\":{}",
                self.checked, self.excluded, self.changed, self.panics
            ),
        );
    }
}

struct Counters {
    up: Cnt,
    down: Cnt,
    modulo: Cnt,
}

fn check_up(c: &mut Cnt, e: u8, v: u64) {
    match ref_up(e, v) {
        None => c.excluded += 1,
        Some(want) => {
            c.checked += 1;
            if want != v {
                c.changed += 1;
            }
            match out::guarded(|| w::align_up(e, v)) {
                Ok(got) if got == want => {}
                Ok(got) => out::mismatch(&format!("align_up:wrong-result{}", top_class(v)), || {
                    format!("\"exp\":{e},\"value\":\"0x{v:x}\",\"got\":\"0x{got:x}\",\"want\":\"0x{want:x}\"")
                }),
                Err((loc, msg)) => {
                    c.panics += 1;
                    out::mismatch(&format!("align_up:panic@{}", out::panic_site(&loc)), || {
                        format!("\"exp\":{e},\"value\":\"0x{v:x}\",\"panic\":\"{}\"", out::esc(&msg))
                    });
                }
            }
        }
    }
}

fn check_down(c: &mut Cnt, e: u8, v: u64) {
    let want = ref_down(e, v);
    c.checked += 1;
    if want != v {
        c.changed += 1;
    }
    match out::guarded(|| w::align_down(e, v)) {
        Ok(got) if got == want => {}
        Ok(got) => out::mismatch(&format!("align_down:wrong-result{}", top_class(v)), || {
            format!("\"exp\":{e},\"value\":\"0x{v:x}\",\"got\":\"0x{got:x}\",\"want\":\"0x{want:x}\"")
        }),
        Err((loc, msg)) => {
            c.panics += 1;
            out::mismatch(&format!("align_down:panic@{}", out::panic_site(&loc)), || {
                format!("\"exp\":{e},\"value\":\"0x{v:x}\",\"panic\":\"{}\"", out::esc(&msg))
            });
        }
    }
}

fn check_modulo(c: &mut Cnt, e: u8, r: u64, v: u64) {
    match ref_modulo(e, r, v) {
        None => c.excluded += 1,
        Some(want) => {
            c.checked += 1;
            if want != v {
                c.changed += 1;
            }
            match out::guarded(|| w::align_modulo(e, r, v)) {
                Ok(got) if got == want => {}
                Ok(got) => out::mismatch(&format!("align_modulo:wrong-result{}", top_class(v)), || {
                    format!(
                        "\"exp\":{e},\"ref\":\"0x{r:x}\",\"value\":\"0x{v:x}\",\"got\":\"0x{got:x}\",\"want\":\"0x{want:x}\""
                    )
                }),
                Err((loc, msg)) => {
                    c.panics += 1;
                    out::mismatch(&format!("align_modulo:panic@{}", out::panic_site(&loc)), || {
                        format!(
                            "\"exp\":{e},\"ref\":\"0x{r:x}\",\"value\":\"0x{v:x}\",\"panic\":\"{}\"",
                            out::esc(&msg)
                        )
                    });
                }
            }
        }
    }
}

/// Boundary values for alignment 2^e.
fn boundary(e: u8) -> Vec<u64> {
    let a = 1u64 << e;
    let mut v: Vec<u64> = vec![0, 1, 2];
    for k in 0..64u32 {
        for d in -2i64..=2 {
            v.push((1u64 << k).wrapping_add(d as u64));
        }
    }
    // k*a + {-1,0,1} for small and huge k
    let kmax = (MAXV / a as u128) as u64; // largest k with k*a <= u64::MAX
    let mut ks: Vec<u64> = (0..6).collect();
    for j in 0..6 {
        ks.push(kmax.wrapping_sub(j));
    }
    ks.push(kmax / 2);
    ks.push(kmax / 2 + 1);
    for k in ks {
        for d in -1i64..=1 {
            v.push(k.wrapping_mul(a).wrapping_add(d as u64));
        }
    }
    // 2^64 - a*j - {0,1,2}
    for j in 0..4u64 {
        for d in 0..3u64 {
            v.push(0u64.wrapping_sub(a.wrapping_mul(j)).wrapping_sub(d));
        }
    }
    v.sort_unstable();
    v.dedup();
    v
}

fn check_new(raw: u64, checked: &mut u64, accepted: &mut u64) {
    *checked += 1;
    let want = ref_new(raw);
    match out::guarded(|| w::alignment_new(raw)) {
        Ok(got) => {
            if got.is_some() {
                *accepted += 1;
            }
            if got == want {
                return;
            }
            let sig = match (got, want) {
                (Some(_), None) => "alignment_new:accepts-invalid",
                (None, Some(_)) => "alignment_new:rejects-valid",
                _ => "alignment_new:wrong-exponent",
            };
            out::mismatch(sig, || format!("\"raw\":\"0x{raw:x}\",\"got\":\"{got:?}\",\"want\":\"{want:?}\""));
        }
        Err((loc, msg)) => out::mismatch(&format!("alignment_new:panic@{}", out::panic_site(&loc)), || {
            format!("\"raw\":\"0x{raw:x}\",\"panic\":\"{}\"", out::esc(&msg))
        }),
    }
}

pub fn run(seed: u64, n_random: u64) {
    // ---- boundary-complete part (independent of the seed) ----
    let mut nvals = 0usize;
    for e in 0..=16u8 {
        let mut c = Counters { up: Cnt::default(), down: Cnt::default(), modulo: Cnt::default() };
        let b = boundary(e);
        nvals = nvals.max(b.len());
        for &v in &b {
            check_up(&mut c.up, e, v);
            check_down(&mut c.down, e, v);
            for &r in &b {
                check_modulo(&mut c.modulo, e, r, v);
            }
        }
        c.up.emit(&format!("boundary/2^{e}"), "align_up");
        c.down.emit(&format!("boundary/2^{e}"), "align_down");
        c.modulo.emit(&format!("boundary/2^{e}"), "align_modulo");
    }
    out::record("info", &format!("\"boundary_values_per_alignment\":{nvals},\"alignments\":17"));

    // ---- Alignment::new ----
    let (mut checked, mut accepted) = (0u64, 0u64);
    check_new(0, &mut checked, &mut accepted);
    for k in 0..64u32 {
        let p = 1u64 << k;
        for raw in [p, p.wrapping_add(1), p.wrapping_sub(1), p.wrapping_mul(3), p | (p >> 1), p | 1] {
            check_new(raw, &mut checked, &mut accepted);
        }
    }
    check_new(u64::MAX, &mut checked, &mut accepted);
    // every value up to 2^17+2 (covers all accepted ones and their neighbours exhaustively)
    for raw in 0..=(1u64 << 17) + 2 {
        check_new(raw, &mut checked, &mut accepted);
    }
    let mut r = Rng::new(seed, 0xA11);
    for _ in 0..(n_random / 16).max(1000) {
        let raw = r.biased();
        check_new(raw, &mut checked, &mut accepted);
    }
    out::count("new", &format!("\"fn\":\"alignment_new\",\"checked\":{checked},\"accepted\":{accepted}"));

    // ---- random part ----
    let mut c = Counters { up: Cnt::default(), down: Cnt::default(), modulo: Cnt::default() };
    let mut r = Rng::new(seed, 0xA12);
    for i in 0..n_random {
        let e = (i % 17) as u8;
        let (v, rf) = if i & 1 == 0 { (r.next(), r.next()) } else { (r.biased(), r.biased()) };
        check_up(&mut c.up, e, v);
        check_down(&mut c.down, e, v);
        check_modulo(&mut c.modulo, e, rf, v);
    }
    c.up.emit("random", "align_up");
    c.down.emit("random", "align_down");
    c.modulo.emit("random", "align_modulo");
}
