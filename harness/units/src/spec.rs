#![allow(dead_code)]
//! Independent encoding tables, written from the ISA manuals / psABI documents (Arm ARM DDI0487
//! C4/C6, AArch64 ELF ABI IHI0056; RISC-V unprivileged ISA ch. 2 + "C" extension, RISC-V ELF psABI;
//! LoongArch reference manual vol.1 + LoongArch ELF psABI). Nothing here is derived from wild.
//! The AArch64 and RISC-V bit layouts are validated at run time against `llvm-mc --show-encoding`
//! (`units calib`), LoongArch is not (LLVM 14 has no LoongArch backend).

#[derive(Clone, Copy)]
pub struct Seg {
    /// first bit of the field value
    pub v: u32,
    pub len: u32,
    /// first bit in the (up to 64-bit, little-endian) instruction word(s)
    pub w: u32,
}

const fn s(v: u32, len: u32, w: u32) -> Seg {
    Seg { v, len, w }
}

#[derive(Clone, Copy, PartialEq, Eq)]
pub enum Pre {
    /// field value = extracted value
    None,
    /// RISC-V %hi: field = ((v + 0x800) >> 12) mod 2^20, v taken mod 2^32
    Hi20,
    /// RISC-V auipc+jalr pair: bits 0..20 = %hi(v), bits 20..32 = v mod 2^12
    HiLoPair,
    /// AArch64 MOV[NZ]: v >= 0: imm16 = v, opc = 10 (MOVZ); v < 0: imm16 = ~v, opc = 00 (MOVN).
    /// field value bits 0..16 = imm16, bits 16..18 = opc
    MovNZ,
    /// LoongArch pcaddu18i+jirl: ev = offset >> 2; bits 0..16 = ev mod 2^16 (jirl offs16),
    /// bits 16..36 = ((ev + 0x8000) >> 16) mod 2^20 (pcaddu18i si20)
    Call36,
}

pub type AsmFn = fn(word: u64, fv: u64) -> String;

#[derive(Clone, Copy)]
pub struct Template {
    pub name: &'static str,
    pub base: u64,
    /// non-immediate bits that may take any value (register numbers, condition, shift, ...)
    pub free: u64,
    /// assembly text of the instruction `word` whose immediate field holds field value `fv`
    pub asm: Option<AsmFn>,
}

pub struct Kind {
    pub arch: &'static str,
    pub name: &'static str,
    pub nbytes: usize,
    /// number of low bits of the extracted value that are meaningful
    pub in_bits: u32,
    pub pre: Pre,
    pub segs: &'static [Seg],
    pub templates: &'static [Template],
    /// false: the value->field function is not known with confidence; only locality and
    /// independence of the previous field content are judged
    pub decode_checked: bool,
    /// exhaustive enumeration of the input domain is feasible
    pub small: bool,
}

impl Kind {
    pub fn field_mask(&self) -> u64 {
        let mut m = 0u64;
        for sg in self.segs {
            m |= (((1u128 << sg.len) - 1) as u64) << sg.w;
        }
        m
    }

    /// field value (pre-transform applied) for an extracted value
    pub fn field_value(&self, ev: u64, negative: bool) -> u64 {
        match self.pre {
            Pre::None => ev,
            Pre::Hi20 => (((ev as u32).wrapping_add(0x800)) >> 12) as u64,
            Pre::HiLoPair => ((((ev as u32).wrapping_add(0x800)) >> 12) as u64) | ((ev & 0xfff) << 20),
            Pre::MovNZ => {
                if negative {
                    (!ev & 0xffff) | (0b00 << 16)
                } else {
                    (ev & 0xffff) | (0b10 << 16)
                }
            }
            Pre::Call36 => (ev & 0xffff) | ((((ev.wrapping_add(0x8000)) >> 16) & 0xfffff) << 16),
        }
    }

    /// scatter a field value into word position
    pub fn place(&self, fv: u64) -> u64 {
        let mut wv = 0u64;
        for sg in self.segs {
            let bits = (fv >> sg.v) & (((1u128 << sg.len) - 1) as u64);
            wv |= bits << sg.w;
        }
        wv
    }

    /// gather the field value from a word
    pub fn gather(&self, word: u64) -> u64 {
        let mut fv = 0u64;
        for sg in self.segs {
            let bits = (word >> sg.w) & (((1u128 << sg.len) - 1) as u64);
            fv |= bits << sg.v;
        }
        fv
    }

    /// mask of field-value bits covered by the segments
    pub fn fv_mask(&self) -> u64 {
        let mut m = 0u64;
        for sg in self.segs {
            m |= (((1u128 << sg.len) - 1) as u64) << sg.v;
        }
        m
    }
}

fn sx(v: u64, bits: u32) -> i64 {
    let sh = 64 - bits;
    ((v << sh) as i64) >> sh
}

// ------------------------------------------------------------------------------------------
// AArch64
// ------------------------------------------------------------------------------------------
fn xz(r: u64) -> String {
    if r == 31 { "xzr".into() } else { format!("x{r}") }
}
fn wz(r: u64) -> String {
    if r == 31 { "wzr".into() } else { format!("w{r}") }
}
fn xsp(r: u64) -> String {
    if r == 31 { "sp".into() } else { format!("x{r}") }
}
fn wsp(r: u64) -> String {
    if r == 31 { "wsp".into() } else { format!("w{r}") }
}
fn rd(w: u64) -> u64 {
    w & 31
}
fn rn(w: u64) -> u64 {
    (w >> 5) & 31
}
fn hw(w: u64) -> u64 {
    (w >> 21) & 3
}

const A64_ADR: &[Template] = &[
    Template { name: "adr", base: 0x1000_0000, free: 0x1f, asm: Some(|w, fv| format!("adr {}, #{}", xz(rd(w)), sx(fv, 21))) },
    Template { name: "adrp", base: 0x9000_0000, free: 0x1f, asm: Some(|w, fv| format!("adrp {}, #{}", xz(rd(w)), sx(fv, 21) * 4096)) },
];
const A64_MOVKZ: &[Template] = &[
    Template { name: "movk.x", base: 0xF280_0000, free: 0x1f | (3 << 21), asm: Some(|w, fv| format!("movk {}, #{}, lsl #{}", xz(rd(w)), fv & 0xffff, hw(w) * 16)) },
    Template { name: "movz.x", base: 0xD280_0000, free: 0x1f | (3 << 21), asm: Some(|w, fv| format!("movz {}, #{}, lsl #{}", xz(rd(w)), fv & 0xffff, hw(w) * 16)) },
    Template { name: "movk.w", base: 0x7280_0000, free: 0x1f | (1 << 21), asm: Some(|w, fv| format!("movk {}, #{}, lsl #{}", wz(rd(w)), fv & 0xffff, hw(w) * 16)) },
];
fn movnz_asm(w: u64, fv: u64) -> String {
    // the resulting instruction: sf from the word, opc from the field value
    let sf = (w >> 31) & 1;
    let opc = (fv >> 16) & 3;
    let m = if opc == 0 { "movn" } else { "movz" };
    let r = if sf == 1 { xz(rd(w)) } else { wz(rd(w)) };
    format!("{m} {r}, #{}, lsl #{}", fv & 0xffff, hw(w) * 16)
}
const A64_MOVNZ: &[Template] = &[
    Template { name: "movz.x", base: 0xD280_0000, free: 0x1f | (3 << 21), asm: Some(movnz_asm) },
    Template { name: "movn.x", base: 0x9280_0000, free: 0x1f | (3 << 21), asm: Some(movnz_asm) },
    Template { name: "movz.w", base: 0x5280_0000, free: 0x1f | (1 << 21), asm: Some(movnz_asm) },
    Template { name: "movn.w", base: 0x1280_0000, free: 0x1f | (1 << 21), asm: Some(movnz_asm) },
];
const A64_LDRLIT: &[Template] = &[
    Template { name: "ldr.x.lit", base: 0x5800_0000, free: 0x1f, asm: Some(|w, fv| format!("ldr {}, #{}", xz(rd(w)), sx(fv, 19) * 4)) },
    Template { name: "ldr.w.lit", base: 0x1800_0000, free: 0x1f, asm: Some(|w, fv| format!("ldr {}, #{}", wz(rd(w)), sx(fv, 19) * 4)) },
    Template { name: "ldrsw.lit", base: 0x9800_0000, free: 0x1f, asm: Some(|w, fv| format!("ldrsw {}, #{}", xz(rd(w)), sx(fv, 19) * 4)) },
];
const A64_LDRREG: &[Template] = &[
    Template { name: "ldr.x.uoff", base: 0xF940_0000, free: 0x3ff, asm: Some(|w, fv| format!("ldr {}, [{}, #{}]", xz(rd(w)), xsp(rn(w)), (fv & 0xfff) * 8)) },
];
const A64_ADD: &[Template] = &[
    Template { name: "add.x", base: 0x9100_0000, free: 0x3ff, asm: Some(|w, fv| format!("add {}, {}, #{}", xsp(rd(w)), xsp(rn(w)), fv & 0xfff)) },
    Template { name: "add.w", base: 0x1100_0000, free: 0x3ff, asm: Some(|w, fv| format!("add {}, {}, #{}", wsp(rd(w)), wsp(rn(w)), fv & 0xfff)) },
    Template { name: "add.x.lsl12", base: 0x9140_0000, free: 0x3ff, asm: Some(|w, fv| format!("add {}, {}, #{}, lsl #12", xsp(rd(w)), xsp(rn(w)), fv & 0xfff)) },
];
const A64_LDST: &[Template] = &[
    Template { name: "ldrb", base: 0x3940_0000, free: 0x3ff, asm: Some(|w, fv| format!("ldrb {}, [{}, #{}]", wz(rd(w)), xsp(rn(w)), fv & 0xfff)) },
    Template { name: "ldrh", base: 0x7940_0000, free: 0x3ff, asm: Some(|w, fv| format!("ldrh {}, [{}, #{}]", wz(rd(w)), xsp(rn(w)), (fv & 0xfff) * 2)) },
    Template { name: "ldr.w", base: 0xB940_0000, free: 0x3ff, asm: Some(|w, fv| format!("ldr {}, [{}, #{}]", wz(rd(w)), xsp(rn(w)), (fv & 0xfff) * 4)) },
    Template { name: "ldr.x", base: 0xF940_0000, free: 0x3ff, asm: Some(|w, fv| format!("ldr {}, [{}, #{}]", xz(rd(w)), xsp(rn(w)), (fv & 0xfff) * 8)) },
    Template { name: "str.x", base: 0xF900_0000, free: 0x3ff, asm: Some(|w, fv| format!("str {}, [{}, #{}]", xz(rd(w)), xsp(rn(w)), (fv & 0xfff) * 8)) },
    Template { name: "ldr.q", base: 0x3DC0_0000, free: 0x3ff, asm: Some(|w, fv| format!("ldr q{}, [{}, #{}]", rd(w), xsp(rn(w)), (fv & 0xfff) * 16)) },
];
const A64_TSTBR: &[Template] = &[
    Template { name: "tbz.w", base: 0x3600_0000, free: 0x1f | (0x1f << 19), asm: Some(|w, fv| format!("tbz {}, #{}, #{}", wz(rd(w)), (w >> 19) & 31, sx(fv, 14) * 4)) },
    Template { name: "tbnz.x", base: 0xB700_0000, free: 0x1f | (0x1f << 19), asm: Some(|w, fv| format!("tbnz {}, #{}, #{}", xz(rd(w)), 32 + ((w >> 19) & 31), sx(fv, 14) * 4)) },
];
const CONDS: [&str; 16] = ["eq", "ne", "hs", "lo", "mi", "pl", "vs", "vc", "hi", "ls", "ge", "lt", "gt", "le", "al", "nv"];
const A64_BCOND: &[Template] = &[
    Template { name: "b.cond", base: 0x5400_0000, free: 0xf, asm: Some(|w, fv| format!("b.{} #{}", CONDS[(w & 15) as usize], sx(fv, 19) * 4)) },
    Template { name: "cbz.x", base: 0xB400_0000, free: 0x1f, asm: Some(|w, fv| format!("cbz {}, #{}", xz(rd(w)), sx(fv, 19) * 4)) },
    Template { name: "cbnz.w", base: 0x3500_0000, free: 0x1f, asm: Some(|w, fv| format!("cbnz {}, #{}", wz(rd(w)), sx(fv, 19) * 4)) },
];
const A64_JUMP: &[Template] = &[
    Template { name: "b", base: 0x1400_0000, free: 0, asm: Some(|_, fv| format!("b #{}", sx(fv, 26) * 4)) },
    Template { name: "bl", base: 0x9400_0000, free: 0, asm: Some(|_, fv| format!("bl #{}", sx(fv, 26) * 4)) },
];

// ------------------------------------------------------------------------------------------
// RISC-V
// ------------------------------------------------------------------------------------------
fn rvd(w: u64) -> u64 {
    (w >> 7) & 31
}
fn rs1(w: u64) -> u64 {
    (w >> 15) & 31
}
fn rs2(w: u64) -> u64 {
    (w >> 20) & 31
}
const RV_U: &[Template] = &[
    Template { name: "lui", base: 0x37, free: 0x1f << 7, asm: Some(|w, fv| format!("lui x{}, {}", rvd(w), fv & 0xfffff)) },
    Template { name: "auipc", base: 0x17, free: 0x1f << 7, asm: Some(|w, fv| format!("auipc x{}, {}", rvd(w), fv & 0xfffff)) },
];
const RV_I: &[Template] = &[
    Template { name: "addi", base: 0x13, free: (0x1f << 7) | (0x1f << 15), asm: Some(|w, fv| format!("addi x{}, x{}, {}", rvd(w), rs1(w), sx(fv, 12))) },
    Template { name: "ld", base: 0x3003, free: (0x1f << 7) | (0x1f << 15), asm: Some(|w, fv| format!("ld x{}, {}(x{})", rvd(w), sx(fv, 12), rs1(w))) },
    Template { name: "jalr", base: 0x67, free: (0x1f << 7) | (0x1f << 15), asm: Some(|w, fv| format!("jalr x{}, {}(x{})", rvd(w), sx(fv, 12), rs1(w))) },
];
const RV_S: &[Template] = &[
    Template { name: "sd", base: 0x3023, free: (0x1f << 15) | (0x1f << 20), asm: Some(|w, fv| format!("sd x{}, {}(x{})", rs2(w), sx(fv, 12), rs1(w))) },
    Template { name: "sw", base: 0x2023, free: (0x1f << 15) | (0x1f << 20), asm: Some(|w, fv| format!("sw x{}, {}(x{})", rs2(w), sx(fv, 12), rs1(w))) },
    Template { name: "sb", base: 0x0023, free: (0x1f << 15) | (0x1f << 20), asm: Some(|w, fv| format!("sb x{}, {}(x{})", rs2(w), sx(fv, 12), rs1(w))) },
];
const RV_B: &[Template] = &[
    Template { name: "beq", base: 0x0063, free: (0x1f << 15) | (0x1f << 20), asm: Some(|w, fv| format!("beq x{}, x{}, {}", rs1(w), rs2(w), sx(fv & 0x1ffe, 13))) },
    Template { name: "bne", base: 0x1063, free: (0x1f << 15) | (0x1f << 20), asm: Some(|w, fv| format!("bne x{}, x{}, {}", rs1(w), rs2(w), sx(fv & 0x1ffe, 13))) },
    Template { name: "bltu", base: 0x6063, free: (0x1f << 15) | (0x1f << 20), asm: Some(|w, fv| format!("bltu x{}, x{}, {}", rs1(w), rs2(w), sx(fv & 0x1ffe, 13))) },
];
const RV_J: &[Template] = &[
    Template { name: "jal", base: 0x6f, free: 0x1f << 7, asm: Some(|w, fv| format!("jal x{}, {}", rvd(w), sx(fv & 0x1f_fffe, 21))) },
];
const RV_CB: &[Template] = &[
    Template { name: "c.beqz", base: 0xC001, free: 7 << 7, asm: Some(|w, fv| format!("c.beqz x{}, {}", 8 + ((w >> 7) & 7), sx(fv & 0x1fe, 9))) },
    Template { name: "c.bnez", base: 0xE001, free: 7 << 7, asm: Some(|w, fv| format!("c.bnez x{}, {}", 8 + ((w >> 7) & 7), sx(fv & 0x1fe, 9))) },
];
const RV_CJ: &[Template] = &[
    Template { name: "c.j", base: 0xA001, free: 0, asm: Some(|_, fv| format!("c.j {}", sx(fv & 0xffe, 12))) },
];
const RV_CLUI: &[Template] = &[
    // rd must not be x0/x2 and the immediate must not be 0 for the text to assemble; the
    // calibration generator skips those.
    Template { name: "c.lui", base: 0x6001, free: 0x1f << 7, asm: Some(|w, fv| {
        let f = fv & 0x3f;
        let imm = if f < 32 { f } else { 0xfffc0 + f };
        format!("c.lui x{}, {}", rvd(w), imm)
    }) },
];
const RV_UI: &[Template] = &[
    Template { name: "auipc+jalr", base: 0x0000_0067_0000_0017, free: (0x1f << 7) | (0x1f << (32 + 7)) | (0x1f << (32 + 15)), asm: Some(|w, fv| {
        let w1 = w >> 32;
        format!("auipc x{}, {}\njalr x{}, {}(x{})", rvd(w), fv & 0xfffff, rvd(w1), sx((fv >> 20) & 0xfff, 12), rs1(w1))
    }) },
];

// ------------------------------------------------------------------------------------------
// LoongArch (manual only, no assembler available for calibration)
// ------------------------------------------------------------------------------------------
const LA_SI20: &[Template] = &[
    Template { name: "pcalau12i", base: 0x1a00_0000, free: 0x1f, asm: None },
    Template { name: "lu12i.w", base: 0x1400_0000, free: 0x1f, asm: None },
    Template { name: "lu32i.d", base: 0x1600_0000, free: 0x1f, asm: None },
    Template { name: "pcaddu12i", base: 0x1c00_0000, free: 0x1f, asm: None },
    Template { name: "pcaddu18i", base: 0x1e00_0000, free: 0x1f, asm: None },
];
const LA_I12: &[Template] = &[
    Template { name: "addi.d", base: 0x02c0_0000, free: 0x3ff, asm: None },
    Template { name: "ld.d", base: 0x28c0_0000, free: 0x3ff, asm: None },
    Template { name: "st.d", base: 0x29c0_0000, free: 0x3ff, asm: None },
    Template { name: "ori", base: 0x0380_0000, free: 0x3ff, asm: None },
    Template { name: "lu52i.d", base: 0x0300_0000, free: 0x3ff, asm: None },
];
const LA_OFFS16: &[Template] = &[
    Template { name: "beq", base: 0x5800_0000, free: 0x3ff, asm: None },
    Template { name: "bne", base: 0x5c00_0000, free: 0x3ff, asm: None },
    Template { name: "bltu", base: 0x6800_0000, free: 0x3ff, asm: None },
    Template { name: "jirl", base: 0x4c00_0000, free: 0x3ff, asm: None },
];
const LA_B21: &[Template] = &[
    Template { name: "beqz", base: 0x4000_0000, free: 0x1f << 5, asm: None },
    Template { name: "bnez", base: 0x4400_0000, free: 0x1f << 5, asm: None },
];
const LA_B26: &[Template] = &[
    Template { name: "b", base: 0x5000_0000, free: 0, asm: None },
    Template { name: "bl", base: 0x5400_0000, free: 0, asm: None },
];
const LA_CALL36: &[Template] = &[
    Template { name: "pcaddu18i+jirl", base: 0x4c00_0000_1e00_0000, free: 0x1f | (0x3ff << 32), asm: None },
];
const LA_CALL30: &[Template] = &[
    Template { name: "pcaddu12i+jirl", base: 0x4c00_0000_1c00_0000, free: 0x1f | (0x3ff << 32), asm: None },
];

pub const KINDS: &[Kind] = &[
    // ---- AArch64 (C4.1 encoding index; C6.2 instruction pages) ----
    Kind { arch: "aarch64", name: "Adr", nbytes: 4, in_bits: 21, pre: Pre::None, segs: &[s(0, 2, 29), s(2, 19, 5)], templates: A64_ADR, decode_checked: true, small: false },
    Kind { arch: "aarch64", name: "Movkz", nbytes: 4, in_bits: 16, pre: Pre::None, segs: &[s(0, 16, 5)], templates: A64_MOVKZ, decode_checked: true, small: true },
    Kind { arch: "aarch64", name: "Movnz", nbytes: 4, in_bits: 16, pre: Pre::MovNZ, segs: &[s(0, 16, 5), s(16, 2, 29)], templates: A64_MOVNZ, decode_checked: true, small: true },
    Kind { arch: "aarch64", name: "Ldr", nbytes: 4, in_bits: 19, pre: Pre::None, segs: &[s(0, 19, 5)], templates: A64_LDRLIT, decode_checked: true, small: false },
    Kind { arch: "aarch64", name: "LdrRegister", nbytes: 4, in_bits: 12, pre: Pre::None, segs: &[s(0, 12, 10)], templates: A64_LDRREG, decode_checked: true, small: true },
    Kind { arch: "aarch64", name: "Add", nbytes: 4, in_bits: 12, pre: Pre::None, segs: &[s(0, 12, 10)], templates: A64_ADD, decode_checked: true, small: true },
    Kind { arch: "aarch64", name: "LdSt", nbytes: 4, in_bits: 12, pre: Pre::None, segs: &[s(0, 12, 10)], templates: A64_LDST, decode_checked: true, small: true },
    Kind { arch: "aarch64", name: "TstBr", nbytes: 4, in_bits: 14, pre: Pre::None, segs: &[s(0, 14, 5)], templates: A64_TSTBR, decode_checked: true, small: true },
    Kind { arch: "aarch64", name: "Bcond", nbytes: 4, in_bits: 19, pre: Pre::None, segs: &[s(0, 19, 5)], templates: A64_BCOND, decode_checked: true, small: false },
    Kind { arch: "aarch64", name: "JumpCall", nbytes: 4, in_bits: 26, pre: Pre::None, segs: &[s(0, 26, 0)], templates: A64_JUMP, decode_checked: true, small: false },
    // ---- RISC-V (unprivileged ISA 2.3 immediate encoding variants; C extension 16.x) ----
    Kind { arch: "riscv64", name: "UType", nbytes: 4, in_bits: 32, pre: Pre::Hi20, segs: &[s(0, 20, 12)], templates: RV_U, decode_checked: true, small: false },
    Kind { arch: "riscv64", name: "IType", nbytes: 4, in_bits: 32, pre: Pre::None, segs: &[s(0, 12, 20)], templates: RV_I, decode_checked: true, small: false },
    Kind { arch: "riscv64", name: "SType", nbytes: 4, in_bits: 32, pre: Pre::None, segs: &[s(0, 5, 7), s(5, 7, 25)], templates: RV_S, decode_checked: true, small: false },
    Kind { arch: "riscv64", name: "BType", nbytes: 4, in_bits: 32, pre: Pre::None, segs: &[s(11, 1, 7), s(1, 4, 8), s(5, 6, 25), s(12, 1, 31)], templates: RV_B, decode_checked: true, small: false },
    Kind { arch: "riscv64", name: "JType", nbytes: 4, in_bits: 32, pre: Pre::None, segs: &[s(12, 8, 12), s(11, 1, 20), s(1, 10, 21), s(20, 1, 31)], templates: RV_J, decode_checked: true, small: false },
    Kind { arch: "riscv64", name: "CbType", nbytes: 2, in_bits: 16, pre: Pre::None, segs: &[s(5, 1, 2), s(1, 2, 3), s(6, 2, 5), s(3, 2, 10), s(8, 1, 12)], templates: RV_CB, decode_checked: true, small: true },
    Kind { arch: "riscv64", name: "CjType", nbytes: 2, in_bits: 16, pre: Pre::None, segs: &[s(5, 1, 2), s(1, 3, 3), s(7, 1, 6), s(6, 1, 7), s(10, 1, 8), s(8, 2, 9), s(4, 1, 11), s(11, 1, 12)], templates: RV_CJ, decode_checked: true, small: true },
    Kind { arch: "riscv64", name: "CluiType", nbytes: 2, in_bits: 32, pre: Pre::Hi20, segs: &[s(0, 5, 2), s(5, 1, 12)], templates: RV_CLUI, decode_checked: true, small: false },
    Kind { arch: "riscv64", name: "UiType", nbytes: 8, in_bits: 32, pre: Pre::HiLoPair, segs: &[s(0, 20, 12), s(20, 12, 32 + 20)], templates: RV_UI, decode_checked: true, small: false },
    // ---- LoongArch (reference manual vol.1, appendix B instruction formats) ----
    Kind { arch: "loongarch64", name: "Shift5", nbytes: 4, in_bits: 20, pre: Pre::None, segs: &[s(0, 20, 5)], templates: LA_SI20, decode_checked: true, small: false },
    Kind { arch: "loongarch64", name: "Shift10", nbytes: 4, in_bits: 12, pre: Pre::None, segs: &[s(0, 12, 10)], templates: LA_I12, decode_checked: true, small: true },
    // offs16 at [25:10]: the format R_LARCH_B16 applies to (wild routes it through Shift10)
    Kind { arch: "loongarch64", name: "Offs16", nbytes: 4, in_bits: 16, pre: Pre::None, segs: &[s(0, 16, 10)], templates: LA_OFFS16, decode_checked: true, small: true },
    Kind { arch: "loongarch64", name: "Branch21", nbytes: 4, in_bits: 21, pre: Pre::None, segs: &[s(0, 16, 10), s(16, 5, 0)], templates: LA_B21, decode_checked: true, small: false },
    Kind { arch: "loongarch64", name: "Branch26", nbytes: 4, in_bits: 26, pre: Pre::None, segs: &[s(0, 16, 10), s(16, 10, 0)], templates: LA_B26, decode_checked: true, small: false },
    Kind { arch: "loongarch64", name: "Call36", nbytes: 8, in_bits: 36, pre: Pre::Call36, segs: &[s(0, 16, 32 + 10), s(16, 20, 5)], templates: LA_CALL36, decode_checked: true, small: false },
    // pcaddu12i si20 [24:5] + jirl offs16 [25:10]: only the union of the two immediate fields is
    // asserted (locality / independence); the value split is not judged.
    Kind { arch: "loongarch64", name: "Call30", nbytes: 8, in_bits: 17, pre: Pre::None, segs: &[s(0, 16, 32 + 10), s(16, 20, 5)], templates: LA_CALL30, decode_checked: false, small: false },
];

pub fn kind(arch: &str, name: &str) -> &'static Kind {
    KINDS.iter().find(|k| k.arch == arch && k.name == name).expect("kind")
}

// ------------------------------------------------------------------------------------------
// Relocation types that patch instruction immediates (C13 write_to_buffer path)
// ------------------------------------------------------------------------------------------
pub struct InsnRel {
    pub arch: &'static str,
    pub r_type: u32,
    pub name: &'static str,
    /// my format (a Kind name of the same arch)
    pub kind: &'static str,
    /// field = X[shift .. shift+bits)
    pub shift: u32,
    pub bits: u32,
    /// in-range X: lo <= X < hi, X multiple of align
    pub lo: i128,
    pub hi: i128,
    pub align: u64,
}

const fn ir(arch: &'static str, r_type: u32, name: &'static str, kind: &'static str, shift: u32, bits: u32, lo: i128, hi: i128, align: u64) -> InsnRel {
    InsnRel { arch, r_type, name, kind, shift, bits, lo, hi, align }
}

const fn p2(n: u32) -> i128 {
    1i128 << n
}
const ANY_LO: i128 = -(1i128 << 63);
const ANY_HI: i128 = 1i128 << 63;
const A: &str = "aarch64";
const R: &str = "riscv64";
const L: &str = "loongarch64";

pub const INSN_RELS: &[InsnRel] = &[
    // AArch64 ELF ABI (IHI0056) tables 5.7.6 .. 5.7.11
    ir(A, 263, "R_AARCH64_MOVW_UABS_G0", "Movkz", 0, 16, 0, p2(16), 1),
    ir(A, 264, "R_AARCH64_MOVW_UABS_G0_NC", "Movkz", 0, 16, ANY_LO, ANY_HI, 1),
    ir(A, 265, "R_AARCH64_MOVW_UABS_G1", "Movkz", 16, 16, 0, p2(32), 1),
    ir(A, 266, "R_AARCH64_MOVW_UABS_G1_NC", "Movkz", 16, 16, ANY_LO, ANY_HI, 1),
    ir(A, 267, "R_AARCH64_MOVW_UABS_G2", "Movkz", 32, 16, 0, p2(48), 1),
    ir(A, 268, "R_AARCH64_MOVW_UABS_G2_NC", "Movkz", 32, 16, ANY_LO, ANY_HI, 1),
    ir(A, 269, "R_AARCH64_MOVW_UABS_G3", "Movkz", 48, 16, ANY_LO, ANY_HI, 1),
    ir(A, 270, "R_AARCH64_MOVW_SABS_G0", "Movnz", 0, 16, -p2(16), p2(16), 1),
    ir(A, 271, "R_AARCH64_MOVW_SABS_G1", "Movnz", 16, 16, -p2(32), p2(32), 1),
    ir(A, 272, "R_AARCH64_MOVW_SABS_G2", "Movnz", 32, 16, -p2(48), p2(48), 1),
    ir(A, 273, "R_AARCH64_LD_PREL_LO19", "Ldr", 2, 19, -p2(20), p2(20), 4),
    ir(A, 274, "R_AARCH64_ADR_PREL_LO21", "Adr", 0, 21, -p2(20), p2(20), 1),
    ir(A, 275, "R_AARCH64_ADR_PREL_PG_HI21", "Adr", 12, 21, -p2(32), p2(32), 4096),
    ir(A, 276, "R_AARCH64_ADR_PREL_PG_HI21_NC", "Adr", 12, 21, -p2(44), p2(44), 4096),
    ir(A, 277, "R_AARCH64_ADD_ABS_LO12_NC", "Add", 0, 12, ANY_LO, ANY_HI, 1),
    ir(A, 278, "R_AARCH64_LDST8_ABS_LO12_NC", "LdSt", 0, 12, ANY_LO, ANY_HI, 1),
    ir(A, 279, "R_AARCH64_TSTBR14", "TstBr", 2, 14, -p2(15), p2(15), 4),
    ir(A, 280, "R_AARCH64_CONDBR19", "Bcond", 2, 19, -p2(20), p2(20), 4),
    ir(A, 282, "R_AARCH64_JUMP26", "JumpCall", 2, 26, -p2(27), p2(27), 4),
    ir(A, 283, "R_AARCH64_CALL26", "JumpCall", 2, 26, -p2(27), p2(27), 4),
    ir(A, 284, "R_AARCH64_LDST16_ABS_LO12_NC", "LdSt", 1, 11, ANY_LO, ANY_HI, 2),
    ir(A, 285, "R_AARCH64_LDST32_ABS_LO12_NC", "LdSt", 2, 10, ANY_LO, ANY_HI, 4),
    ir(A, 286, "R_AARCH64_LDST64_ABS_LO12_NC", "LdSt", 3, 9, ANY_LO, ANY_HI, 8),
    ir(A, 287, "R_AARCH64_MOVW_PREL_G0", "Movnz", 0, 16, -p2(16), p2(16), 1),
    ir(A, 288, "R_AARCH64_MOVW_PREL_G0_NC", "Movkz", 0, 16, ANY_LO, ANY_HI, 1),
    ir(A, 289, "R_AARCH64_MOVW_PREL_G1", "Movnz", 16, 16, -p2(32), p2(32), 1),
    ir(A, 290, "R_AARCH64_MOVW_PREL_G1_NC", "Movkz", 16, 16, ANY_LO, ANY_HI, 1),
    ir(A, 291, "R_AARCH64_MOVW_PREL_G2", "Movnz", 32, 16, -p2(48), p2(48), 1),
    ir(A, 292, "R_AARCH64_MOVW_PREL_G2_NC", "Movkz", 32, 16, ANY_LO, ANY_HI, 1),
    ir(A, 293, "R_AARCH64_MOVW_PREL_G3", "Movnz", 48, 16, ANY_LO, ANY_HI, 1),
    ir(A, 299, "R_AARCH64_LDST128_ABS_LO12_NC", "LdSt", 4, 8, ANY_LO, ANY_HI, 16),
    ir(A, 309, "R_AARCH64_GOT_LD_PREL19", "Ldr", 2, 19, -p2(20), p2(20), 4),
    ir(A, 310, "R_AARCH64_LD64_GOTOFF_LO15", "LdSt", 3, 12, 0, p2(15), 8),
    ir(A, 311, "R_AARCH64_ADR_GOT_PAGE", "Adr", 12, 21, -p2(32), p2(32), 4096),
    ir(A, 312, "R_AARCH64_LD64_GOT_LO12_NC", "LdSt", 3, 9, ANY_LO, ANY_HI, 8),
    ir(A, 313, "R_AARCH64_LD64_GOTPAGE_LO15", "LdSt", 3, 12, 0, p2(15), 8),
    ir(A, 512, "R_AARCH64_TLSGD_ADR_PREL21", "Adr", 0, 21, -p2(20), p2(20), 1),
    ir(A, 513, "R_AARCH64_TLSGD_ADR_PAGE21", "Adr", 12, 21, -p2(32), p2(32), 4096),
    ir(A, 514, "R_AARCH64_TLSGD_ADD_LO12_NC", "Add", 0, 12, ANY_LO, ANY_HI, 1),
    ir(A, 515, "R_AARCH64_TLSGD_MOVW_G1", "Movnz", 16, 16, -p2(32), p2(32), 1),
    ir(A, 516, "R_AARCH64_TLSGD_MOVW_G0_NC", "Movkz", 0, 16, ANY_LO, ANY_HI, 1),
    ir(A, 517, "R_AARCH64_TLSLD_ADR_PREL21", "Adr", 0, 21, -p2(20), p2(20), 1),
    ir(A, 518, "R_AARCH64_TLSLD_ADR_PAGE21", "Adr", 12, 21, -p2(32), p2(32), 4096),
    ir(A, 519, "R_AARCH64_TLSLD_ADD_LO12_NC", "Add", 0, 12, ANY_LO, ANY_HI, 1),
    ir(A, 520, "R_AARCH64_TLSLD_MOVW_G1", "Movnz", 16, 16, -p2(32), p2(32), 1),
    ir(A, 521, "R_AARCH64_TLSLD_MOVW_G0_NC", "Movkz", 0, 16, ANY_LO, ANY_HI, 1),
    ir(A, 522, "R_AARCH64_TLSLD_LD_PREL19", "Ldr", 2, 19, -p2(20), p2(20), 4),
    ir(A, 523, "R_AARCH64_TLSLD_MOVW_DTPREL_G2", "Movnz", 32, 16, -p2(48), p2(48), 1),
    ir(A, 524, "R_AARCH64_TLSLD_MOVW_DTPREL_G1", "Movnz", 16, 16, -p2(32), p2(32), 1),
    ir(A, 525, "R_AARCH64_TLSLD_MOVW_DTPREL_G1_NC", "Movkz", 16, 16, ANY_LO, ANY_HI, 1),
    ir(A, 526, "R_AARCH64_TLSLD_MOVW_DTPREL_G0", "Movnz", 0, 16, -p2(16), p2(16), 1),
    ir(A, 527, "R_AARCH64_TLSLD_MOVW_DTPREL_G0_NC", "Movkz", 0, 16, ANY_LO, ANY_HI, 1),
    ir(A, 528, "R_AARCH64_TLSLD_ADD_DTPREL_HI12", "Add", 12, 12, 0, p2(24), 1),
    ir(A, 529, "R_AARCH64_TLSLD_ADD_DTPREL_LO12", "Add", 0, 12, 0, p2(12), 1),
    ir(A, 530, "R_AARCH64_TLSLD_ADD_DTPREL_LO12_NC", "Add", 0, 12, ANY_LO, ANY_HI, 1),
    ir(A, 531, "R_AARCH64_TLSLD_LDST8_DTPREL_LO12", "LdSt", 0, 12, 0, p2(12), 1),
    ir(A, 532, "R_AARCH64_TLSLD_LDST8_DTPREL_LO12_NC", "LdSt", 0, 12, ANY_LO, ANY_HI, 1),
    ir(A, 533, "R_AARCH64_TLSLD_LDST16_DTPREL_LO12", "LdSt", 1, 11, 0, p2(12), 2),
    ir(A, 534, "R_AARCH64_TLSLD_LDST16_DTPREL_LO12_NC", "LdSt", 1, 11, ANY_LO, ANY_HI, 2),
    ir(A, 535, "R_AARCH64_TLSLD_LDST32_DTPREL_LO12", "LdSt", 2, 10, 0, p2(12), 4),
    ir(A, 536, "R_AARCH64_TLSLD_LDST32_DTPREL_LO12_NC", "LdSt", 2, 10, ANY_LO, ANY_HI, 4),
    ir(A, 537, "R_AARCH64_TLSLD_LDST64_DTPREL_LO12", "LdSt", 3, 9, 0, p2(12), 8),
    ir(A, 538, "R_AARCH64_TLSLD_LDST64_DTPREL_LO12_NC", "LdSt", 3, 9, ANY_LO, ANY_HI, 8),
    ir(A, 539, "R_AARCH64_TLSIE_MOVW_GOTTPREL_G1", "Movnz", 16, 16, -p2(32), p2(32), 1),
    ir(A, 540, "R_AARCH64_TLSIE_MOVW_GOTTPREL_G0_NC", "Movkz", 0, 16, ANY_LO, ANY_HI, 1),
    ir(A, 541, "R_AARCH64_TLSIE_ADR_GOTTPREL_PAGE21", "Adr", 12, 21, -p2(32), p2(32), 4096),
    ir(A, 542, "R_AARCH64_TLSIE_LD64_GOTTPREL_LO12_NC", "LdSt", 3, 9, ANY_LO, ANY_HI, 8),
    ir(A, 543, "R_AARCH64_TLSIE_LD_GOTTPREL_PREL19", "Ldr", 2, 19, -p2(20), p2(20), 4),
    ir(A, 544, "R_AARCH64_TLSLE_MOVW_TPREL_G2", "Movnz", 32, 16, -p2(48), p2(48), 1),
    ir(A, 545, "R_AARCH64_TLSLE_MOVW_TPREL_G1", "Movnz", 16, 16, -p2(32), p2(32), 1),
    ir(A, 546, "R_AARCH64_TLSLE_MOVW_TPREL_G1_NC", "Movkz", 16, 16, ANY_LO, ANY_HI, 1),
    ir(A, 547, "R_AARCH64_TLSLE_MOVW_TPREL_G0", "Movnz", 0, 16, -p2(16), p2(16), 1),
    ir(A, 548, "R_AARCH64_TLSLE_MOVW_TPREL_G0_NC", "Movkz", 0, 16, ANY_LO, ANY_HI, 1),
    ir(A, 549, "R_AARCH64_TLSLE_ADD_TPREL_HI12", "Add", 12, 12, 0, p2(24), 1),
    ir(A, 550, "R_AARCH64_TLSLE_ADD_TPREL_LO12", "Add", 0, 12, 0, p2(12), 1),
    ir(A, 551, "R_AARCH64_TLSLE_ADD_TPREL_LO12_NC", "Add", 0, 12, ANY_LO, ANY_HI, 1),
    ir(A, 552, "R_AARCH64_TLSLE_LDST8_TPREL_LO12", "LdSt", 0, 12, 0, p2(12), 1),
    ir(A, 553, "R_AARCH64_TLSLE_LDST8_TPREL_LO12_NC", "LdSt", 0, 12, ANY_LO, ANY_HI, 1),
    ir(A, 554, "R_AARCH64_TLSLE_LDST16_TPREL_LO12", "LdSt", 1, 11, 0, p2(12), 2),
    ir(A, 555, "R_AARCH64_TLSLE_LDST16_TPREL_LO12_NC", "LdSt", 1, 11, ANY_LO, ANY_HI, 2),
    ir(A, 556, "R_AARCH64_TLSLE_LDST32_TPREL_LO12", "LdSt", 2, 10, 0, p2(12), 4),
    ir(A, 557, "R_AARCH64_TLSLE_LDST32_TPREL_LO12_NC", "LdSt", 2, 10, ANY_LO, ANY_HI, 4),
    ir(A, 558, "R_AARCH64_TLSLE_LDST64_TPREL_LO12", "LdSt", 3, 9, 0, p2(12), 8),
    ir(A, 559, "R_AARCH64_TLSLE_LDST64_TPREL_LO12_NC", "LdSt", 3, 9, ANY_LO, ANY_HI, 8),
    ir(A, 560, "R_AARCH64_TLSDESC_LD_PREL19", "Ldr", 2, 19, -p2(20), p2(20), 4),
    ir(A, 561, "R_AARCH64_TLSDESC_ADR_PREL21", "Adr", 0, 21, -p2(20), p2(20), 1),
    ir(A, 562, "R_AARCH64_TLSDESC_ADR_PAGE21", "Adr", 12, 21, -p2(32), p2(32), 4096),
    ir(A, 563, "R_AARCH64_TLSDESC_LD64_LO12", "LdSt", 3, 9, ANY_LO, ANY_HI, 8),
    ir(A, 564, "R_AARCH64_TLSDESC_ADD_LO12", "Add", 0, 12, ANY_LO, ANY_HI, 1),
    ir(A, 565, "R_AARCH64_TLSDESC_OFF_G1", "Movnz", 16, 16, -p2(32), p2(32), 1),
    ir(A, 566, "R_AARCH64_TLSDESC_OFF_G0_NC", "Movkz", 0, 16, ANY_LO, ANY_HI, 1),
    ir(A, 570, "R_AARCH64_TLSLE_LDST128_TPREL_LO12", "LdSt", 4, 8, 0, p2(12), 16),
    ir(A, 571, "R_AARCH64_TLSLE_LDST128_TPREL_LO12_NC", "LdSt", 4, 8, ANY_LO, ANY_HI, 16),
    ir(A, 572, "R_AARCH64_TLSLD_LDST128_DTPREL_LO12", "LdSt", 4, 8, 0, p2(12), 16),
    ir(A, 573, "R_AARCH64_TLSLD_LDST128_DTPREL_LO12_NC", "LdSt", 4, 8, ANY_LO, ANY_HI, 16),
    // RISC-V ELF psABI (value = the byte offset / address the relocation computes)
    ir(R, 16, "R_RISCV_BRANCH", "BType", 0, 32, -4096, 4096, 2),
    ir(R, 17, "R_RISCV_JAL", "JType", 0, 32, -p2(20), p2(20), 2),
    ir(R, 18, "R_RISCV_CALL", "UiType", 0, 32, -p2(31), p2(31) - 0x800, 1),
    ir(R, 19, "R_RISCV_CALL_PLT", "UiType", 0, 32, -p2(31), p2(31) - 0x800, 1),
    ir(R, 20, "R_RISCV_GOT_HI20", "UType", 0, 32, -p2(31), p2(31) - 0x800, 1),
    ir(R, 21, "R_RISCV_TLS_GOT_HI20", "UType", 0, 32, -p2(31), p2(31) - 0x800, 1),
    ir(R, 22, "R_RISCV_TLS_GD_HI20", "UType", 0, 32, -p2(31), p2(31) - 0x800, 1),
    ir(R, 23, "R_RISCV_PCREL_HI20", "UType", 0, 32, -p2(31), p2(31) - 0x800, 1),
    ir(R, 24, "R_RISCV_PCREL_LO12_I", "IType", 0, 32, -p2(31), p2(31) - 0x800, 1),
    ir(R, 25, "R_RISCV_PCREL_LO12_S", "SType", 0, 32, -p2(31), p2(31) - 0x800, 1),
    ir(R, 26, "R_RISCV_HI20", "UType", 0, 32, -p2(31), p2(31) - 0x800, 1),
    ir(R, 27, "R_RISCV_LO12_I", "IType", 0, 32, -p2(31), p2(31) - 0x800, 1),
    ir(R, 28, "R_RISCV_LO12_S", "SType", 0, 32, -p2(31), p2(31) - 0x800, 1),
    ir(R, 29, "R_RISCV_TPREL_HI20", "UType", 0, 32, -p2(31), p2(31) - 0x800, 1),
    ir(R, 30, "R_RISCV_TPREL_LO12_I", "IType", 0, 32, -p2(31), p2(31) - 0x800, 1),
    ir(R, 31, "R_RISCV_TPREL_LO12_S", "SType", 0, 32, -p2(31), p2(31) - 0x800, 1),
    ir(R, 44, "R_RISCV_RVC_BRANCH", "CbType", 0, 16, -256, 256, 2),
    ir(R, 45, "R_RISCV_RVC_JUMP", "CjType", 0, 16, -2048, 2048, 2),
    // LoongArch ELF psABI v2.x
    ir(L, 64, "R_LARCH_B16", "Offs16", 2, 16, -p2(17), p2(17), 4),
    ir(L, 65, "R_LARCH_B21", "Branch21", 2, 21, -p2(22), p2(22), 4),
    ir(L, 66, "R_LARCH_B26", "Branch26", 2, 26, -p2(27), p2(27), 4),
    ir(L, 67, "R_LARCH_ABS_HI20", "Shift5", 12, 20, ANY_LO, ANY_HI, 1),
    ir(L, 68, "R_LARCH_ABS_LO12", "Shift10", 0, 12, ANY_LO, ANY_HI, 1),
    ir(L, 69, "R_LARCH_ABS64_LO20", "Shift5", 32, 20, ANY_LO, ANY_HI, 1),
    ir(L, 70, "R_LARCH_ABS64_HI12", "Shift10", 52, 12, ANY_LO, ANY_HI, 1),
    ir(L, 72, "R_LARCH_PCALA_LO12", "Shift10", 0, 12, ANY_LO, ANY_HI, 1),
    ir(L, 103, "R_LARCH_PCREL20_S2", "Shift5", 2, 20, -p2(21), p2(21), 4),
    ir(L, 110, "R_LARCH_CALL36", "Call36", 2, 36, -p2(37), p2(37) - 0x20000, 4),
];

// ------------------------------------------------------------------------------------------
// C12: value ranges per relocation type (psABI + the common behaviour of GNU ld and lld)
// ------------------------------------------------------------------------------------------
pub struct RangeRel {
    pub arch: &'static str,
    pub r_type: u32,
    pub name: &'static str,
    /// bytes written for plain data/displacement fields (0 = instruction field, see `insn`)
    pub nbytes: usize,
    /// values in [acc_lo, acc_hi) that are multiples of `align` must be accepted and written
    pub acc_lo: i128,
    pub acc_hi: i128,
    /// values outside [rej_lo, rej_hi) must be rejected; between the two the references differ
    /// or the psABI is silent (excluded and counted)
    pub rej_lo: i128,
    pub rej_hi: i128,
    pub align: u64,
    /// Some(InsnRel name) when the field is an instruction immediate
    pub insn: bool,
}

const fn rr(arch: &'static str, r_type: u32, name: &'static str, nbytes: usize, acc_lo: i128, acc_hi: i128, rej_lo: i128, rej_hi: i128) -> RangeRel {
    RangeRel { arch, r_type, name, nbytes, acc_lo, acc_hi, rej_lo, rej_hi, align: 1, insn: false }
}
const fn ri(arch: &'static str, r_type: u32, name: &'static str, lo: i128, hi: i128, align: u64) -> RangeRel {
    RangeRel { arch, r_type, name, nbytes: 0, acc_lo: lo, acc_hi: hi, rej_lo: lo, rej_hi: hi, align, insn: true }
}
const X: &str = "x86_64";

pub const RANGE_RELS: &[RangeRel] = &[
    // x86-64 psABI table 4.9 ("word8/16/32/64" fields). Where the psABI only says the value must
    // fit, GNU ld (complain_overflow_*) and lld (checkInt/checkUInt/checkIntUInt) define what
    // "both accept/reject" means:
    //   R_X86_64_8/16: ld bitfield [-2^n, 2^n), lld checkIntUInt [-2^(n-1), 2^n)
    //                                       -> accept [-2^(n-1), 2^n), silent down to -2^n
    //   R_X86_64_PC8:  both signed
    //   R_X86_64_PC16: ld bitfield, lld signed -> accept signed, silent in [-2^16,-2^15) and [2^15,2^16)
    //   R_X86_64_32:   both unsigned; R_X86_64_32S, PC32, PLT32, GOTPCREL*, TLS 32-bit: signed
    rr(X, 1, "R_X86_64_64", 8, ANY_LO, p2(64), ANY_LO, p2(64)),
    rr(X, 2, "R_X86_64_PC32", 4, -p2(31), p2(31), -p2(31), p2(31)),
    rr(X, 4, "R_X86_64_PLT32", 4, -p2(31), p2(31), -p2(31), p2(31)),
    rr(X, 9, "R_X86_64_GOTPCREL", 4, -p2(31), p2(31), -p2(31), p2(31)),
    rr(X, 10, "R_X86_64_32", 4, 0, p2(32), 0, p2(32)),
    rr(X, 11, "R_X86_64_32S", 4, -p2(31), p2(31), -p2(31), p2(31)),
    rr(X, 12, "R_X86_64_16", 2, -p2(15), p2(16), -p2(16), p2(16)),
    rr(X, 13, "R_X86_64_PC16", 2, -p2(15), p2(15), -p2(16), p2(16)),
    rr(X, 14, "R_X86_64_8", 1, -p2(7), p2(8), -p2(8), p2(8)),
    rr(X, 15, "R_X86_64_PC8", 1, -p2(7), p2(7), -p2(7), p2(7)),
    rr(X, 17, "R_X86_64_DTPOFF64", 8, ANY_LO, p2(64), ANY_LO, p2(64)),
    rr(X, 19, "R_X86_64_TLSGD", 4, -p2(31), p2(31), -p2(31), p2(31)),
    rr(X, 20, "R_X86_64_TLSLD", 4, -p2(31), p2(31), -p2(31), p2(31)),
    rr(X, 21, "R_X86_64_DTPOFF32", 4, -p2(31), p2(31), -p2(31), p2(31)),
    rr(X, 22, "R_X86_64_GOTTPOFF", 4, -p2(31), p2(31), -p2(31), p2(31)),
    rr(X, 23, "R_X86_64_TPOFF32", 4, -p2(31), p2(31), -p2(31), p2(31)),
    rr(X, 24, "R_X86_64_PC64", 8, ANY_LO, p2(64), ANY_LO, p2(64)),
    rr(X, 25, "R_X86_64_GOTOFF64", 8, ANY_LO, p2(64), ANY_LO, p2(64)),
    rr(X, 26, "R_X86_64_GOTPC32", 4, -p2(31), p2(31), -p2(31), p2(31)),
    rr(X, 29, "R_X86_64_GOTPC64", 8, ANY_LO, p2(64), ANY_LO, p2(64)),
    rr(X, 34, "R_X86_64_GOTPC32_TLSDESC", 4, -p2(31), p2(31), -p2(31), p2(31)),
    rr(X, 41, "R_X86_64_GOTPCRELX", 4, -p2(31), p2(31), -p2(31), p2(31)),
    rr(X, 42, "R_X86_64_REX_GOTPCRELX", 4, -p2(31), p2(31), -p2(31), p2(31)),
    // AArch64 ELF ABI: data relocations (table 5.7.5) and checked instruction relocations
    rr(A, 257, "R_AARCH64_ABS64", 8, ANY_LO, p2(64), ANY_LO, p2(64)),
    rr(A, 258, "R_AARCH64_ABS32", 4, -p2(31), p2(32), -p2(31), p2(32)),
    rr(A, 259, "R_AARCH64_ABS16", 2, -p2(15), p2(16), -p2(15), p2(16)),
    rr(A, 260, "R_AARCH64_PREL64", 8, ANY_LO, p2(64), ANY_LO, p2(64)),
    rr(A, 261, "R_AARCH64_PREL32", 4, -p2(31), p2(32), -p2(31), p2(32)),
    rr(A, 262, "R_AARCH64_PREL16", 2, -p2(15), p2(16), -p2(15), p2(16)),
    rr(A, 314, "R_AARCH64_PLT32", 4, -p2(31), p2(31), -p2(31), p2(31)),
    ri(A, 263, "R_AARCH64_MOVW_UABS_G0", 0, p2(16), 1),
    ri(A, 265, "R_AARCH64_MOVW_UABS_G1", 0, p2(32), 1),
    ri(A, 267, "R_AARCH64_MOVW_UABS_G2", 0, p2(48), 1),
    ri(A, 270, "R_AARCH64_MOVW_SABS_G0", -p2(16), p2(16), 1),
    ri(A, 271, "R_AARCH64_MOVW_SABS_G1", -p2(32), p2(32), 1),
    ri(A, 272, "R_AARCH64_MOVW_SABS_G2", -p2(48), p2(48), 1),
    ri(A, 273, "R_AARCH64_LD_PREL_LO19", -p2(20), p2(20), 4),
    ri(A, 274, "R_AARCH64_ADR_PREL_LO21", -p2(20), p2(20), 1),
    ri(A, 275, "R_AARCH64_ADR_PREL_PG_HI21", -p2(32), p2(32), 4096),
    ri(A, 279, "R_AARCH64_TSTBR14", -p2(15), p2(15), 4),
    ri(A, 280, "R_AARCH64_CONDBR19", -p2(20), p2(20), 4),
    ri(A, 282, "R_AARCH64_JUMP26", -p2(27), p2(27), 4),
    ri(A, 283, "R_AARCH64_CALL26", -p2(27), p2(27), 4),
    ri(A, 287, "R_AARCH64_MOVW_PREL_G0", -p2(16), p2(16), 1),
    ri(A, 289, "R_AARCH64_MOVW_PREL_G1", -p2(32), p2(32), 1),
    ri(A, 291, "R_AARCH64_MOVW_PREL_G2", -p2(48), p2(48), 1),
    ri(A, 309, "R_AARCH64_GOT_LD_PREL19", -p2(20), p2(20), 4),
    ri(A, 311, "R_AARCH64_ADR_GOT_PAGE", -p2(32), p2(32), 4096),
    ri(A, 544, "R_AARCH64_TLSLE_MOVW_TPREL_G2", -p2(48), p2(48), 1),
    ri(A, 545, "R_AARCH64_TLSLE_MOVW_TPREL_G1", -p2(32), p2(32), 1),
    ri(A, 547, "R_AARCH64_TLSLE_MOVW_TPREL_G0", -p2(16), p2(16), 1),
    ri(A, 549, "R_AARCH64_TLSLE_ADD_TPREL_HI12", 0, p2(24), 1),
    ri(A, 550, "R_AARCH64_TLSLE_ADD_TPREL_LO12", 0, p2(12), 1),
];
