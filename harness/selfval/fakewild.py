#!/usr/bin/env python3
"""A stand-in for wild used only to self-validate the monitors: GNU ld plus a switchable fault."""
import os, subprocess, sys
args = sys.argv[1:]
fault = os.environ.get("FAKEWILD_FAULT", "")
ld = "/usr/bin/ld.bfd"
has_nsm = "--no-string-merge" in args
clean = [a for a in args if a not in ("--no-string-merge", "--got-plt-syms")]
if fault == "alloc" and "--hash-style=sysv" in args and "now" in args:
    sys.stderr.write("wild: error: Insufficient .dynamic allocation. Setting WILD_VERIFY_ALLOCATIONS=1 might give more info\n")
    sys.exit(1)
rc = subprocess.call([ld] + clean)
if rc:
    sys.exit(rc)
out = "a.out"
for i, a in enumerate(args):
    if a == "-o":
        out = args[i + 1]
if fault == "strings" and has_nsm:
    d = open(out, "rb").read()
    d2 = d.replace(b"proggen shared string", b"proggen SHARED string")
    if d2 != d:
        open(out, "wb").write(d2)
if fault == "localize" and "-r" in args:
    subprocess.call(["objcopy", "--localize-hidden", out])
sys.exit(0)
