import importlib, os, sys
sys.path.insert(0, "/verif"); os.chdir("/verif")
from vlib import tools
from vlib.verdict import Ctx
prop, fault = sys.argv[1], sys.argv[2]
os.environ["FAKEWILD_FAULT"] = fault
fake = "/verif/harness/selfval/fakewild.py"
tools.wild = lambda variant="hook": fake
_lp = tools.linker_path
tools.linker_path = lambda kind: fake if kind == "wild" else _lp(kind)
mod = importlib.import_module("props." + prop)
ctx = Ctx(prop + "sv", "quick", int(os.environ.get("VERIF_SEED", "0")), "exploration")
ctx.known = {}
mod.main(ctx)
import vlib.verdict as v
rc = ctx.finish()
print("exit", rc)
